"""./check <ID> [--tier quick|thorough] [--replay <file>]

Loads mc.props.<id>, runs it, matches violations against known_findings.json,
writes replays/<ID>/<sha>.json and evidence/<ID>.json, prints VIOLATION /
KNOWN-FINDING lines.  Exit 0 = held, 1 = unlisted violation, 2 = harness error.
"""
from __future__ import annotations

import argparse
import hashlib
import importlib
import json
import os
import shutil
import subprocess
import sys
import time
import traceback

from . import common

PROPS = [f"C{i:02d}" for i in range(1, 21)]


class Ctx:
    def __init__(self, pid, tier, seed):
        self.pid = pid
        self.tier = tier
        self.seed = seed
        self.thorough = tier == "thorough"
        self.repo = common.REPO
        self.workdir = os.path.join(common.WORK, f"{pid}.{os.getpid()}")

    def scratch(self):
        os.makedirs(self.workdir, exist_ok=True)
        return self.workdir

    def cleanup(self):
        shutil.rmtree(self.workdir, ignore_errors=True)


def load_known():
    path = os.path.join(common.VERIF, "known_findings.json")
    if not os.path.exists(path):
        return []
    with open(path) as f:
        return json.load(f).get("findings", [])


def kf_match(entry, pid, v):
    if entry.get("property") != pid or entry.get("status") != "open":
        return False
    if entry.get("kind") != v.get("kind"):
        return False
    facts = v.get("facts", {})
    for k, want in entry.get("match", {}).items():
        got = facts.get(k)
        if isinstance(want, dict) and "in" in want:
            if got not in want["in"]:
                return False
        elif got != want:
            return False
    return True


def write_replay(pid, v, name=None):
    d = os.path.join(common.VERIF, "replays", pid)
    if common.REPO != "/repo":
        d = os.path.join(common.WORK, "replays-other-tree", pid)      # runs against scratch copies do not litter replays/
    os.makedirs(d, exist_ok=True)
    body = {"property": pid, "kind": v.get("kind"), "facts": v.get("facts", {}),
            "case": v.get("case"), "detail": v.get("detail")}
    blob = json.dumps(body, sort_keys=True, default=repr, indent=1)
    sha = hashlib.sha1(json.dumps([pid, v.get("kind"), v.get("case")], sort_keys=True, default=repr).encode()).hexdigest()[:16]
    path = os.path.join(d, (name or sha) + ".json")
    with open(path, "w") as f:
        f.write(blob + "\n")
    return os.path.relpath(path, common.VERIF)


def validate_evidence(path):
    schema = "/root/.vp/EVIDENCE.schema.json"
    if not os.path.exists(schema):
        schema = os.path.join(common.VERIF, "schemas", "EVIDENCE.schema.json")
    if not os.path.exists(schema) or shutil.which("python3-vt") is None:
        return None
    code = ("import json,sys,jsonschema;"
            "jsonschema.validate(json.load(open(sys.argv[1])),json.load(open(sys.argv[2])))")
    r = subprocess.run(["python3-vt", "-c", code, path, schema], capture_output=True, text=True)
    if r.returncode != 0:
        return r.stderr.strip().splitlines()[-1] if r.stderr.strip() else "invalid"
    return True


def dedupe(violations, limit_per_sig=1):
    """Shortest case first, one per signature."""
    out, seen = [], {}
    for v in sorted(violations, key=lambda v: (len(json.dumps(v.get("case"), default=repr)), json.dumps(v.get("case"), default=repr))):
        sig = v.get("signature") or json.dumps([v.get("kind"), v.get("facts")], sort_keys=True, default=repr)
        seen[sig] = seen.get(sig, 0) + 1
        if seen[sig] <= limit_per_sig:
            out.append(v)
    return out, seen


def main(argv=None):
    ap = argparse.ArgumentParser()
    ap.add_argument("pid")
    ap.add_argument("--tier", default=os.environ.get("VERIF_TIER", "quick"), choices=["quick", "thorough"])
    ap.add_argument("--replay")
    ap.add_argument("--seed", type=int, default=None)
    a = ap.parse_args(argv)
    pid = a.pid.upper()
    if pid not in PROPS:
        print(f"unknown property {pid}", file=sys.stderr)
        return 2
    try:
        seed = a.seed if a.seed is not None else int(os.environ.get("VERIF_SEED", "0"))
    except ValueError:
        seed = 0
    ctx = Ctx(pid, a.tier, seed)
    sw = common.Stopwatch()
    try:
        mod = importlib.import_module(f"mc.props.{pid.lower()}")
        if a.replay:
            with open(a.replay) as f:
                rep = json.load(f)
            vio = mod.replay(ctx, rep)
            for v in vio:
                print(f"REPRODUCED property={pid} kind={v.get('kind')} {v.get('detail', '')[:300]}")
            if not vio:
                print(f"NOT-REPRODUCED property={pid} replay={a.replay}")
            return 1 if vio else 0
        try:
            res = mod.run(ctx)
        except Exception:
            # one retry: a failure of the machinery that does not repeat (a worker lost under extreme load, say) must not
            # decide anything; the first traceback is kept in .work/ for inspection, a second failure is a harness error
            os.makedirs(common.WORK, exist_ok=True)
            with open(os.path.join(common.WORK, "harness-errors.log"), "a") as f:
                f.write(f"--- {pid} {a.tier}\n{traceback.format_exc()}\n")
            ctx.cleanup()
            ctx = Ctx(pid, a.tier, seed)
            try:
                res = mod.run(ctx)
            except Exception as ex2:
                # the same failure twice.  If the exception was raised inside the library (innermost frame under the tree being
                # checked) at a call this check makes for its property, the library did something no execution of the unchanged
                # tree does: report it as a violation with the traceback as its replay; otherwise it is the machinery's fault.
                tb = traceback.format_exc()
                first = tb.split("The above exception was the direct cause")[0]       # a worker's traceback comes first
                frames = [l.strip() for l in first.splitlines() if l.strip().startswith("File ")]
                lib = [l for l in frames if common.REPO.rstrip("/") + "/" in l]
                if lib and frames and (frames[-1] in lib or any(common.REPO.rstrip("/") + "/nmea2000/" in l for l in frames[-3:])):
                    res = {"coverage": {"states": 1, "transitions": 1, "traces_validated_against_impl": 1, "exhaustive": False,
                                        "bound_completed": "stopped: the library raised an exception the check does not expect",
                                        "samples": [{"note": "see violation"}]},
                           "violations": [{"kind": "library_raised_unexpectedly", "facts": {"error": type(ex2).__name__},
                                           "signature": f"crash:{type(ex2).__name__}:{lib[-1][:80]}",
                                           "detail": f"{type(ex2).__name__}: {ex2} raised inside the library at {lib[-1][:160]}",
                                           "case": {"traceback": tb[-3000:]}}],
                           "assumptions": []}
                else:
                    raise
    except Exception:
        traceback.print_exc()
        print(f"HARNESS-ERROR property={pid}", file=sys.stderr)
        ctx.cleanup()
        return 2
    finally:
        pass
    ctx.cleanup()

    violations = res.get("violations", [])
    skipped = [v for v in violations if "skipped_after_hangs" in str(v.get("detail", ""))]
    if skipped and len(skipped) < len(violations):
        # executions a worker did not run any more after four watchdog timeouts (mc/vloop.py): not evidence of anything
        violations = [v for v in violations if "skipped_after_hangs" not in str(v.get("detail", ""))]
        print(f"NOTE property={pid} {len(skipped)} execution(s) were skipped after repeated watchdog timeouts in their worker")
    uniq, sigcount = dedupe(violations)
    known = load_known()
    unlisted, listed = [], {}
    for v in uniq:
        hit = next((e for e in known if kf_match(e, pid, v)), None)
        if hit is not None:
            listed.setdefault(hit["id"], [hit, 0, v])
            listed[hit["id"]][1] += 1
        else:
            unlisted.append(v)
    # all raw violations (not only deduped) counted for the evidence
    n_known_raw = sum(1 for v in violations if any(kf_match(e, pid, v) for e in known))
    for kid, (e, n, v) in sorted(listed.items()):
        print(f"KNOWN-FINDING: property={pid} {e['what']} [{kid}; {n} distinct signature(s) this run]")
        if common.REPO == "/repo":
            write_replay(pid, v, name="known-" + kid)
    shown = 0
    for v in unlisted:
        path = write_replay(pid, v)
        if shown < 25:
            print(f"VIOLATION property={pid} replay={path}")
            print(f"  kind={v.get('kind')} {str(v.get('detail', ''))[:400]}")
        shown += 1
    if shown > 25:
        print(f"  ... {shown - 25} further distinct violations written to replays/{pid}/")

    cov = dict(res.get("coverage", {}))
    cov.setdefault("exhaustive", True)
    if not cov.get("samples"):
        # a run in which everything explored was a violation has no 'good' sample: show violating cases
        cov["samples"] = [v.get("case") for v in uniq[:3]] or [{"note": "no case recorded"}]
    for k in ("states", "transitions"):
        if not cov.get(k):
            cov[k] = max(1, int(cov.get("evaluations") or 1))
    ev = {
        "property_id": pid,
        "tier": a.tier,
        "seed": seed,
        "level": "model_checking",
        "coverage": cov,
        "assumptions": res.get("assumptions", []),
        "wall_s": sw.s(),
        "violations": len(unlisted),
        "violations_raw_total": len(violations),
        "known_finding_hits": n_known_raw,
        "repo": common.REPO,
    }
    evdir = os.path.join(common.VERIF, "evidence")
    if common.REPO != "/repo":
        evdir = os.path.join(common.WORK, "evidence-other-tree")     # runs against scratch copies never touch evidence/
    os.makedirs(evdir, exist_ok=True)
    evp = os.path.join(evdir, f"{pid}.json")
    with open(evp, "w") as f:
        json.dump(ev, f, indent=1, default=repr)
        f.write("\n")
    ok = validate_evidence(evp)
    if ok not in (True, None):
        print(f"HARNESS-ERROR property={pid} evidence does not validate: {ok}", file=sys.stderr)
        return 2
    c = cov
    print(f"{pid} {a.tier}: states={c.get('states')} transitions={c.get('transitions')} "
          f"impl_runs={c.get('traces_validated_against_impl')} nontrivial={c.get('distinct_nontrivial')} "
          f"outcomes={c.get('distinct_outcomes')} bound={c.get('bound_completed')} exhaustive={c.get('exhaustive')} "
          f"violations={len(unlisted)} known={len(listed)} wall={sw.s()}s")
    return 1 if unlisted else 0


if __name__ == "__main__":
    sys.exit(main())
