"""Shared plumbing: import the library from the working tree, freeze its clock,
canonical views of messages, worker pool, seeded extras."""
from __future__ import annotations

import datetime as _dt
import hashlib
import json
import logging
import math
import multiprocessing as mp
import os
import sys
import time

VERIF = os.path.dirname(os.path.dirname(os.path.abspath(__file__)))
REPO = os.path.abspath(os.environ.get("VERIF_REPO", "/repo"))
WORK = os.path.join(VERIF, ".work")

if sys.path[0] != REPO:
    sys.path.insert(0, REPO)

logging.disable(logging.CRITICAL)

import nmea2000  # noqa: E402

assert os.path.abspath(nmea2000.__file__).startswith(REPO + os.sep), (
    f"nmea2000 imported from {nmea2000.__file__}, expected under {REPO}")

import nmea2000.decoder as _decoder_mod  # noqa: E402
import nmea2000.message as _message_mod  # noqa: E402

FROZEN_NOW = _dt.datetime(2024, 1, 1, 12, 0, 0)


class FrozenDateTime:
    """Stand-in for the `datetime` name inside nmea2000.decoder: now() never moves, so the
    10-minute discovery window of the decoder cannot expire in the middle of a run on a slow
    machine; everything it returns is a plain datetime (orjson refuses subclasses)."""

    offset = _dt.timedelta(0)

    @staticmethod
    def now(tz=None):
        return FROZEN_NOW + FrozenDateTime.offset

    strptime = staticmethod(_dt.datetime.strptime)


def freeze_clock():
    _decoder_mod.datetime = FrozenDateTime


def set_clock_offset(minutes):
    """move the frozen clock (only used to step out of the decoder's 10-minute discovery window)"""
    FrozenDateTime.offset = _dt.timedelta(minutes=minutes)


freeze_clock()


# --------------------------------------------------------------------------
# canonical, attribute-name-agnostic views

def canon(obj, _depth=0):
    """Canonical JSON-able serialisation of an arbitrary object graph (used as
    the state key of the explicit-state searches).  No abstraction: everything
    reachable is serialised."""
    if _depth > 12:
        return "<deep>"
    if obj is None or isinstance(obj, (bool, int, str)):
        return obj
    if isinstance(obj, float):
        if math.isnan(obj):
            return "nan"
        return repr(obj)
    if isinstance(obj, (bytes, bytearray)):
        return "x" + bytes(obj).hex()
    if isinstance(obj, (list, tuple)):
        return [canon(x, _depth + 1) for x in obj]
    if isinstance(obj, (set, frozenset)):
        return sorted((canon(x, _depth + 1) for x in obj), key=repr)
    if isinstance(obj, dict):
        return sorted(([canon(k, _depth + 1), canon(v, _depth + 1)] for k, v in obj.items()), key=repr)
    if isinstance(obj, (_dt.datetime, _dt.date, _dt.time, _dt.timedelta)):
        return str(obj)
    import enum
    if isinstance(obj, enum.Enum):
        return f"{type(obj).__name__}.{obj.name}"
    if hasattr(obj, "__dict__"):
        return [type(obj).__name__, canon(vars(obj), _depth + 1)]
    return repr(obj)


def canon_key(obj) -> str:
    return hashlib.sha1(json.dumps(canon(obj), sort_keys=False, default=repr).encode()).hexdigest()


def val_view(v):
    if isinstance(v, float):
        if math.isnan(v):
            return "nan"
        return v
    if isinstance(v, (bytes, bytearray)):
        return "x" + bytes(v).hex()
    if isinstance(v, (_dt.date, _dt.time, _dt.datetime, _dt.timedelta)):
        return str(v)
    import enum
    if isinstance(v, enum.Enum):
        return v.name
    return v


def field_view(f):
    return (f.id, f.name, f.description, f.unit_of_measurement, val_view(f.value), val_view(f.raw_value),
            val_view(f.physical_quantities), val_view(f.type), f.part_of_primary_key)


def iso_view(n):
    if n is None:
        return None
    return tuple(sorted((k, val_view(v)) for k, v in vars(n).items()))


def msg_view(m, with_identity=True):
    """Everything a property can observe about a returned message, except the
    wall-clock timestamp and the echo of the raw input."""
    if m is None:
        return None
    return (m.PGN, m.id, m.description, val_view(m.ttl), m.source, m.destination, m.priority,
            tuple(field_view(f) for f in m.fields),
            iso_view(m.source_iso_name) if with_identity else None, m.hash)


def msg_brief(m):
    if m is None:
        return None
    return {"PGN": m.PGN, "id": m.id, "src": m.source, "dst": m.destination, "prio": m.priority,
            "fields": {f.id: [val_view(f.value), val_view(f.raw_value)] for f in m.fields}}


# --------------------------------------------------------------------------
# pool

def n_workers():
    try:
        return max(1, min(16, int(os.environ.get("VERIF_WORKERS", os.cpu_count() or 1))))
    except ValueError:
        return 16


def pmap(func, tasks, chunksize=1):
    """Run func over tasks in forked workers (the library is already imported,
    so children share it).  Order of results == order of tasks."""
    tasks = list(tasks)
    w = n_workers()
    if w == 1 or len(tasks) <= 1:
        return [func(t) for t in tasks]
    ctx = mp.get_context("fork")
    with ctx.Pool(min(w, len(tasks))) as pool:
        return pool.map(func, tasks, chunksize)


class Stopwatch:
    def __init__(self):
        self.t0 = time.time()

    def s(self):
        return round(time.time() - self.t0, 3)


def seeded_values(seed: int, n: int, bits: int, salt: str = ""):
    """n deterministic 'arbitrary' raws of the given width derived from the seed."""
    out = []
    for i in range(n):
        h = hashlib.sha256(f"{seed}:{salt}:{i}".encode()).digest()
        out.append(int.from_bytes(h, "big") & ((1 << bits) - 1) if bits else 0)
    return out
