"""Deviation-bounded payload enumerator: base payloads per definition, per-field raw
alphabets, and all payloads that differ from a base in at most k fields."""
from __future__ import annotations

import itertools
import struct

from . import common, refdb
from .refdb import NUMERIC


def umask(bits):
    return (1 << bits) - 1


def f32(x):
    return struct.unpack("<I", struct.pack("<f", x))[0]


def lau(text, ascii_=True):
    body = text.encode("ascii") if ascii_ else text.encode("utf-16-le")
    return bytes([len(body) + 2, 1 if ascii_ else 0]) + body


def lz(text):
    body = text.encode("ascii")
    return bytes([len(body)]) + body + b"\x00"


def field_alphabet(f: refdb.Field, seed: int, narrow_all: int = 0):
    """raw tokens for one field: unsigned ints for bit fields, bytes for variable strings"""
    t = f.type
    if t == "STRING_LAU":
        return [lau(""), lau("Hi"), lau("Hi", False), lau("A@b c"), bytes([3, 1, 0xC3]), bytes([2, 0]), bytes([0, 0]), bytes([9, 1, 65]),
                # text outside ASCII, in both encodings: the same letters with and without the accented one must stay distinct
                bytes([6, 1]) + "Hi\u00e9".encode("utf-8"), bytes([6, 1]) + "Hi\u00fc".encode("utf-8"), lau("Hi\u00e9", False), lau("\u6e2f", False),
                # the same text with and without trailing / leading separator characters
                lau("Hi_"), lau("_"), lau("Hi__"), lau("_Hi"), lau("Hi "), lau(" ")]
    if t == "STRING_LZ":
        return [lz(""), lz("Hey"), lz("x y"), bytes([3, 65, 0xFF, 66, 0]), bytes([5, 65])]
    b = f.bits
    if b is None:
        return [b"", b"\x01\x02\x03", b"\xff" * 4]
    m = umask(b)
    if narrow_all and b <= narrow_all:
        return list(range(1 << b))
    vals = []
    seeded = common.seeded_values(seed, 2, b, f"{f.id}:{f.offset}")
    if t in NUMERIC:
        rr = f.raw_range()
        s = f.sentinel()
        cand = [0, 1, m, m - 1, s, s - 1, s - 2, s + 1, (1 << (b - 1)) - 1 if b > 1 else 0, 1 << (b - 1)]
        if rr:
            lo, hi = rr
            cand += [lo, lo + 1, hi, hi - 1, hi + 1, lo - 1, (lo + hi) // 2]
        if f.signed:
            cand += [-1, -2]
        cand += seeded
        vals = [c & m for c in cand]
    elif t == "LOOKUP":
        table = sorted(refdb.db().lookups.get(f.lookup, {}))
        pick = table if len(table) <= 24 else table[:12] + table[-6:]
        undefined = next((v for v in range(m, -1, -1) if v not in table), None)
        vals = pick + ([undefined] if undefined is not None else []) + [m, 0] + seeded[:1]
    elif t == "BITLOOKUP":
        vals = [0, m] + [1 << i for i in range(min(b, 16))] + seeded[:1]
    elif t == "INDIRECT_LOOKUP":
        vals = [0, m, 130, 140, 170] + seeded[:1]
    elif t == "FLOAT":
        vals = [f32(0.0), f32(1.5), f32(-2.25), f32(float("inf")), f32(float("nan")), m, 0x00800000] + seeded[:1]
        if f.rmax is not None:
            vals.append(f32(float(f.rmax)))
    elif t == "STRING_FIX":
        n = (b + 7) // 8
        text = (b"ABCDEFGHIJKLMNOPQRSTUVWXYZabcdefghijklmnopqrstuvwxyz" * 8)[:n]

        def enc(bs):
            return int.from_bytes(bs[:n].ljust(n, b"\xff"), "little") & m
        vals = [m, 0, enc(text), enc(b"Hi".ljust(n, b"\x00")), enc(b"Hi".ljust(n, b"\xff")), enc(b"Hi".ljust(n, b"@")),
                enc(b"Hi".ljust(n, b" ")), enc(b" a b"), enc(b"\xc3\xa9\x80z")]
    else:   # RESERVED, SPARE, BINARY and unsupported bit fields
        vals = [0, m, 1, 1 << (b - 1)] + seeded
    out = []
    for v in vals:
        v &= m
        if v not in out:
            out.append(v)
    return out


def base_token(f: refdb.Field, which: str):
    t = f.type
    if t == "STRING_LAU":
        return {"zero": lau(""), "ones": lau("Z"), "min": lau(""), "mid": lau("Mid"), "max": lau("Maximum")}[which]
    if t == "STRING_LZ":
        return {"zero": lz(""), "ones": lz("Z"), "min": lz(""), "mid": lz("Mid"), "max": lz("Maximum")}[which]
    b = f.bits
    if b is None:
        return b""
    m = umask(b)
    if f.match is not None:
        return f.match & m
    if which == "zero":
        return 0
    if which == "ones":
        return m
    if t in NUMERIC:
        rr = f.raw_range()
        if not rr:
            return f.sentinel()
        lo, hi = rr
        v = {"min": lo, "mid": (lo + hi) // 2, "max": hi}[which]
        return v & m
    if t == "LOOKUP":
        table = sorted(refdb.db().lookups.get(f.lookup, {}))
        if not table:
            return 0
        return {"min": table[0], "mid": table[len(table) // 2], "max": table[-1]}[which] & m
    if t == "FLOAT":
        return {"min": f32(float(f.rmin)) if f.rmin is not None else f32(-1.0), "mid": f32(1.5),
                "max": f32(float(f.rmax)) if f.rmax is not None and abs(f.rmax) < 3e38 else f32(1e30)}[which]
    if t == "STRING_FIX":
        n = (b + 7) // 8
        return int.from_bytes({"min": b"", "mid": b"Mid", "max": b"MAXIMUMXXXXXXXXXXXXXXXXXXXXXXXXXXXXXXXXXXXXXXXXX"}[which][:n].ljust(n, b"\xff"), "little") & m
    return {"min": 0, "mid": m // 3, "max": m}[which]


BASES = ("zero", "ones", "min", "mid", "max")


def base_assignment(defn: refdb.Definition, which: str):
    return [base_token(f, which) for f in defn.fields]


def build(defn: refdb.Definition, assign):
    """-> (payload_int, nbytes)"""
    running = 0
    val = 0
    for f, tok in zip(defn.fields, assign):
        off = f.offset if f.offset is not None else running
        if isinstance(tok, (bytes, bytearray)):
            if off % 8:
                off += 8 - off % 8
            val |= int.from_bytes(tok, "little") << off
            running = off + 8 * len(tok)
        else:
            bits = f.bits
            val |= (tok & umask(bits)) << off
            running = off + bits
    nbytes = (running + 7) // 8
    if defn.fixed:
        nbytes = defn.byte_length()
    else:
        nbytes = max(nbytes, 1)
    return val, nbytes


def deviations(defn: refdb.Definition, base, alph, k: int, fields=None):
    """all assignments differing from base in exactly 1..k fields; yields (changed_idx_tuple, assignment)"""
    idxs = fields if fields is not None else range(len(defn.fields))
    idxs = [i for i in idxs if alph[i]]
    for r in range(1, k + 1):
        for combo in itertools.combinations(idxs, r):
            pools = [[t for t in alph[i] if t != base[i]] for i in combo]
            for toks in itertools.product(*pools):
                a = list(base)
                for i, t in zip(combo, toks):
                    a[i] = t
                yield combo, a
