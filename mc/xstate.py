"""Explicit-state breadth-first search over *live* objects.

A state is any deep-copiable Python object (typically: real decoder(s) + the
reference model's own state + the environment's state).  `step(state, ev)`
receives a private deep copy, calls the real public entry point(s) of the
library on it and returns a list of violation dicts (oracle evaluated on that
transition).  `key(state)` is the canonical serialisation used to merge states.
BFS order => the first counterexample is a shortest one."""
from __future__ import annotations

import collections
import copy


class SearchResult:
    def __init__(self):
        self.states = 0
        self.transitions = 0
        self.max_depth = 0
        self.closed = False        # frontier emptied (fixed point reached)
        self.cap_hit = None
        self.violations = []
        self.samples = []
        self.nontrivial = 0

    def merge_counts(self, other):
        self.states += other.states
        self.transitions += other.transitions
        self.max_depth = max(self.max_depth, other.max_depth)


def history(parents, k):
    out = []
    while True:
        pk, ev = parents[k]
        if pk is None:
            break
        out.append(ev)
        k = pk
    out.reverse()
    return out


def bfs(init, enabled, step, key, *, max_states=400_000, max_depth=None,
        nontrivial=None, max_violations=100, stop_after=40, counts=None, sample_every=0, copier=copy.deepcopy):
    """
    init        initial state object
    enabled(s)  -> iterable of events (JSON-able) enabled in s
    step(s, ev) -> list of violation dicts; mutates s (s is a private copy)
    key(s)      -> hashable canonical key
    nontrivial(s) -> bool, counted over distinct states
    Each violation dict gets 'case' = {"history": [... events ...]} filled in.
    """
    res = SearchResult()
    n_counting = [0]
    n_other = [0]
    k0 = key(init)
    parents = {k0: (None, None)}
    depth = {k0: 0}
    frontier = collections.deque([(k0, init)])
    res.states = 1
    if nontrivial and nontrivial(init):
        res.nontrivial += 1
    while frontier:
        k, s = frontier.popleft()
        d = depth[k]
        if max_depth is not None and d >= max_depth:
            res.cap_hit = f"depth {max_depth}"
            continue
        for ev in enabled(s):
            s2 = copier(s)
            vios = step(s2, ev)
            res.transitions += 1
            if vios:
                h = history(parents, k) + [ev]
                for v in vios:
                    v = dict(v)
                    v.setdefault("case", {})
                    v["case"]["history"] = h
                    if counts is None or counts(v):
                        n_counting[0] += 1
                        res.violations.append(v)
                    elif n_other[0] < max_violations:
                        # violations the caller says must not stop the search (recorded findings):
                        # keep a bounded number of examples, never at the expense of the others
                        n_other[0] += 1
                        res.violations.append(v)
                # do not expand beyond a violating transition: the shortest
                # counterexample is what we want and oracle state may be off.
                if stop_after and n_counting[0] >= stop_after:
                    res.cap_hit = f"stopped after {len(res.violations)} violations"
                    frontier.clear()
                    break
                continue
            k2 = key(s2)
            if k2 in parents:
                continue
            parents[k2] = (k, ev)
            depth[k2] = d + 1
            res.max_depth = max(res.max_depth, d + 1)
            res.states += 1
            if nontrivial and nontrivial(s2):
                res.nontrivial += 1
            if sample_every and res.states % sample_every == 0 and len(res.samples) < 5:
                res.samples.append(history(parents, k2))
            if res.states >= max_states:
                res.cap_hit = f"states {max_states}"
                frontier.clear()
                break
            frontier.append((k2, s2))
    res.closed = res.cap_hit is None
    if not res.samples and len(parents) > 1:
        # deepest state's history as a sample
        kd = max(depth, key=lambda x: depth[x])
        res.samples.append(history(parents, kd))
    return res
