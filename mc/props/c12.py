"""C12 - clients deliver every decodable frame once, in order, for any chunking.

Stateless exploration of the real clients on the virtual loop: all streams up to a length
over an alphabet of valid / fast-packet / unknown / malformed packets x all segmentations
with <=k cut points (plus byte-by-byte and all-at-once) x callback behaviours (return, raise,
slow) x one 'early delivery' deviation (next chunk handed over before the loop is quiescent)."""
from __future__ import annotations

import itertools

from .. import clientkit, common, vloop
from ..vloop import it_connect
from nmea2000.decoder import NMEA2000Decoder

ID = "C12"


def alphabet(kind):
    pk = clientkit.std(kind)
    items = {"A": pk["A"], "A2": pk["A2"], "B1": pk["B1"], "UNK": pk["UNK"], "BAD": pk["BAD"]}
    if pk["B2"]:
        items["B2"] = pk["B2"]
    if kind in ("actisense", "yd"):
        items["EMPTY"] = b"\r\n"
        items["NONUTF"] = b"\xff\xfe\x80 \xc3\x28\r\n"
        items["LFONLY"] = pk["A"].replace(b"\r\n", b"\n")
        # well-formed lines the decoder rejects with something other than ValueError
        from .. import wire as _w
        if kind == "actisense":
            items["RAISE"] = (_w.actisense_line(3, 255, 5, 126208, bytes([1, 0, 0xED, 1, 2, 3, 4, 5])) + "\r\n").encode()   # unsupported field type: bare Exception
        else:
            items["RAISE"] = (_w.yd_line(_w.can_id(3, 126720, 5, 255), b"\x00") + "\r\n").encode()                        # fast PGN, one byte: IndexError
    if kind == "waveshare":
        from .. import wire as _w
        items["RAISE"] = _w.usb_packet(_w.can_id(3, 126720, 5, 255), b"")     # valid frame, decoder raises (fast PGN, no data)
    if kind == "ebyte":
        items["SHORTLEN"] = bytes([0x81]) + pk["B1"][1:5] + b"\x00" * 8     # fast PGN with one data byte
    return items


def ref_packets(kind, stream: bytes):
    """Reference framing of a stream of whole packets."""
    if kind == "ebyte":
        return [stream[i:i + 13] for i in range(0, len(stream) - 12, 13)]
    if kind == "waveshare":
        return [stream[i:i + 20] for i in range(0, len(stream) - 19, 20)]
    out, cur = [], bytearray()
    for b in stream:
        cur.append(b)
        if b == 0x0A:
            out.append(bytes(cur))
            cur = bytearray()
    return out


def expected(kind, stream):
    dec = NMEA2000Decoder()
    out = []
    for p in ref_packets(kind, stream):
        m = clientkit.decode_one(dec, kind, p)
        if m is not None:
            out.append(common.msg_view(m))
    return out


def it_feed_next(sess):
    i = sess.chunk_i
    if i >= len(sess.chunks):
        return True
    c = sess.gw.live_conn()
    if c is None:
        return False
    sess.chunk_i += 1
    sess.env(c.transport.env_feed, sess.chunks[i])
    return True


def sp_early(sess):
    i = sess.chunk_i
    c = sess.gw.live_conn()
    if i >= len(sess.chunks) or c is None or i == 0:
        return False
    sess.chunk_i += 1
    sess.env(c.transport.env_feed, sess.chunks[i])
    return True


def run_one(kind, chunks, recv_modes, devs=()):
    s = vloop.Session(kind=kind, script=[it_connect] + [it_feed_next] * len(chunks), specials={"early": sp_early},
                      deviations=devs, recv_cb=recv_modes)
    s.chunks = list(chunks)
    s.chunk_i = 0
    o = s.run()
    return s, o


def split(stream, cuts):
    out, prev = [], 0
    for c in cuts:
        out.append(stream[prev:c])
        prev = c
    out.append(stream[prev:])
    return out


def judge(kind, stream, exp, sess, o):
    bad = sorted(k for k in ("livelock", "watchdog", "busy_loop") if o.flags.get(k))
    if bad or o.end_reason != "quiescent":
        return [("hang", {"end": o.end_reason}, f"execution ended with {o.end_reason} {o.flags}")]
    if o.flags.get("callbacks_overlap"):
        return [("callbacks_concurrent", {}, f"a receive callback was started while another was still running ({o.flags['callbacks_overlap']} times)")]
    if sess.chunk_i < len(sess.chunks):
        return [("stream_not_consumed", {}, f"only {sess.chunk_i} of {len(sess.chunks)} chunks could be delivered (connection lost?) status {o.status}")]
    got = [v for _, v in o.received]
    if got == exp:
        if [n for _, n in o.status] != ["CONNECTED"]:
            return [("connection_disturbed", {}, f"status trace {o.status}")]
        return []
    if len(got) < len(exp) and got == exp[:len(got)]:
        k = "messages_lost_tail"
    elif sorted(map(repr, got)) == sorted(map(repr, exp)):
        k = "reordered"
    elif len(got) > len(exp):
        k = "duplicated_or_extra"
    else:
        k = "wrong_messages"
    return [(k, {"expected": len(exp), "got": len(got)},
             f"expected PGNs {[e[0] for e in exp]} sids {[e[7][0][4] for e in exp]}, callback got {[g[0] for g in got]} {[g[7][0][4] for g in got]}")]


def _task(args):
    kind, seqs, max_cuts, cb_variants, early = args
    items = alphabet(kind)
    vios = []
    stats = {"runs": 0, "streams": 0, "nontrivial": 0, "outcomes": set()}
    sample = None
    for seq in seqs:
        stream = b"".join(items[n] for n in seq)
        exp = expected(kind, stream)
        stats["streams"] += 1
        L = len(stream)
        segs = [(), tuple(range(1, L))]
        for k in range(1, max_cuts + 1):
            segs += list(itertools.combinations(range(1, L), k))
        n_exp = len(exp)
        cbs = ["ok"]
        if cb_variants and n_exp:
            cbs = [list(c) for c in itertools.product(("ok", "raise", "slow"), repeat=n_exp)]
        for cuts in segs:
            chunks = split(stream, cuts)
            use_cbs = cbs if len(cuts) <= 1 or len(cuts) == L - 1 else cbs[:1]
            for cb in use_cbs:
                devsets = [()]
                if early and len(chunks) >= 2 and len(cuts) <= 2:
                    # place the early delivery at every boundary of the undeviated run
                    s0, o0 = run_one(kind, chunks, cb)
                    nb = len([b for b in o0.boundaries if not b[0].startswith("special:")])
                    devsets += [((b, "early", False),) for b in range(nb)]
                    stats["runs"] += 1
                    res = judge(kind, stream, exp, s0, o0)
                    stats["outcomes"].add(len(o0.received))
                    devsets = devsets[1:]
                    if res:
                        devsets = []
                        for kk, f, d in res:
                            vios.append(mk(kind, seq, cuts, cb, (), kk, f, d))
                for devs in devsets:
                    s, o = run_one(kind, chunks, cb, devs)
                    stats["runs"] += 1
                    if s.redundant:
                        continue
                    if len(cuts) > 0 or cb != "ok":
                        stats["nontrivial"] += 1
                    stats["outcomes"].add(len(o.received))
                    for kk, f, d in judge(kind, stream, exp, s, o):
                        vios.append(mk(kind, seq, cuts, cb, devs, kk, f, d))
                    if sample is None and len(cuts) == 2:
                        sample = {"client": kind, "stream": list(seq), "cuts": list(cuts), "callbacks": cb, "delivered": len(o.received)}
            if len(vios) > 300:
                break
    stats["outcomes"] = len(stats["outcomes"])
    return stats, vios, sample


def _task_huge(args):
    """text clients: a line longer than the stream reader's limit (64 KiB) is undecodable input like any
    other; the messages around it must still arrive.  Only a few segmentations (the stream is 70 KB)."""
    kind, = args
    items = alphabet(kind)
    huge = b"x" * 70000 + b"\r\n"
    huge_nolf_then = b"\xfe" * 66000            # exceeds the limit before any line end is seen
    vios = []
    stats = {"runs": 0, "streams": 0, "nontrivial": 0, "outcomes": set()}
    seqs = [[huge, items["A"]], [items["A"], huge, items["A2"]], [items["B1"], huge, items.get("B2", items["A2"])],
            [huge_nolf_then + b"\r\n", items["A"]], [huge, huge, items["A"]]]
    if kind == "actisense":
        # the longest *valid* lines: a 223-byte and a 134-byte fast-packet payload in one Actisense record
        from .. import wire as _w
        long223 = (_w.actisense_line(3, 255, 5, 126720, bytes([1, 0]) + bytes(((i * 5) % 250) + 1 for i in range(221))) + "\r\n").encode()
        long134 = (_w.actisense_line(3, 255, 5, 130816, bytes([2, 0]) + bytes(((i * 3) % 250) + 1 for i in range(132))) + "\r\n").encode()
        seqs += [[items["A"], long223, items["A2"]], [long134, long223], [long223]]
    for seq in seqs:
        stream = b"".join(seq)
        exp = expected(kind, stream)
        stats["streams"] += 1
        L = len(stream)
        for cuts in ((), (30000,), tuple(range(4096, L, 4096)), tuple(range(65536, L, 65536)), (L - 3,), (69999, 70001), tuple(range(100, min(L, 2000), 100))):
            s, o = run_one(kind, split(stream, [c for c in cuts if 0 < c < L]), "ok")
            stats["runs"] += 1
            stats["nontrivial"] += 1
            stats["outcomes"].add(len(o.received))
            for kk, f, d in judge(kind, stream, exp, s, o):
                vios.append(mk(kind, ("<over-long line streams>",), cuts, "ok", (), kk, dict(f, mechanism="over_long_line"), d))
    stats["outcomes"] = len(stats["outcomes"])
    return stats, vios, None


def it_feed_conn(data_chunks, cid):
    """one item per chunk, delivered on connection #cid once it exists"""
    def mk_item(chunk):
        def item(sess):
            if len(sess.gw.conns) <= cid or sess.client.state != vloop.State.CONNECTED:
                return False
            c = sess.gw.conns[cid]
            if not c.alive or c.eof_sent:
                return True
            sess.env(c.transport.env_feed, chunk)
            return True
        return item
    return [mk_item(c) for c in data_chunks]


def _task_reconnect(args):
    """a link that drops in the middle of a packet, then a new connection with a clean stream: whatever the old
    connection left half received is undecodable input and must not cost the new connection a single message"""
    kind, = args
    items = alphabet(kind)
    vios = []
    stats = {"runs": 0, "streams": 0, "nontrivial": 0, "outcomes": set()}
    sample = None
    first = items["A"]
    second = [items["A2"], items["A"], items["B1"]] + ([items["B2"]] if "B2" in items else [])
    stream2 = b"".join(second)
    exp1 = expected(kind, first)
    exp2 = expected(kind, first + stream2)[len(exp1):]
    victim = items["A2"]
    # text lines: cut inside the time stamp so that what was received cannot pass for a (shorter) valid line
    cuts = range(1, len(victim)) if kind in ("ebyte", "waveshare") else range(1, 9)
    for how in ("eof", "reset"):
        for j in cuts:
            for seg2 in ((), (7,), tuple(range(5, len(stream2), 5))):
                drop = (lambda sess: (vloop.sp_eof(sess) or True)) if how == "eof" else (lambda sess: (vloop.sp_reset(sess) or True))
                script = [it_connect, vloop.it_feed(first + victim[:j], 0), drop] + it_feed_conn(split(stream2, seg2), 1)
                for cbmode in ("ok", "slow"):
                    sess = vloop.Session(kind=kind, script=script, recv_cb=cbmode)
                    o = sess.run()
                    stats["runs"] += 1
                    stats["nontrivial"] += 1
                    got = [v for _, v in o.received]
                    stats["outcomes"].add(len(got))
                    bad = sorted(k for k in ("livelock", "watchdog", "busy_loop") if o.flags.get(k))
                    res = None
                    if o.flags.get("callbacks_overlap"):
                        res = ("callbacks_concurrent", {"second_consumer": True}, f"a receive callback was started while another was still running ({o.flags['callbacks_overlap']} times): "
                               "messages are no longer handed over one after the other")
                    elif bad or o.end_reason != "quiescent":
                        res = ("hang", {"end": o.end_reason}, f"execution ended with {o.end_reason} {o.flags}")
                    elif len(sess.gw.conns) < 2 or not o.flags.get("script_done"):
                        res = ("stream_not_consumed", {}, f"second connection never fed: {len(sess.gw.conns)} connection(s), status {o.status}")
                    elif got != exp1 + exp2:
                        k = "messages_lost_after_reconnect" if len(got) < len(exp1 + exp2) else "duplicated_or_extra"
                        res = (k, {"expected": len(exp1 + exp2), "got": len(got)},
                               f"expected PGNs {[e[0] for e in exp1 + exp2]}, callback got {[g[0] for g in got]}")
                    if res:
                        vios.append({"kind": res[0], "facts": dict(res[1], client=kind, mechanism="state_survives_reconnect"),
                                     "signature": f"reconnect:{res[0]}:{kind}:{how}",
                                     "detail": f"[{kind} connection 0: one packet + {j} bytes of the next, then {how}; connection 1: clean stream cut at {list(seg2)[:4]}] {res[2]}",
                                     "case": {"client": kind, "reconnect": True, "how": how, "j": j, "seg2": list(seg2)}})
                    elif sample is None:
                        sample = {"client": kind, "reconnect_after": f"{j} bytes of a packet then {how}", "delivered": len(got)}
    stats["outcomes"] = len(stats["outcomes"])
    return stats, vios[:40], sample


def _task_eof_behind(args):
    """the peer sends its last packets and closes at once: data and end-of-stream reach the client in the same loop iteration
    (or the data in several reads with the end-of-stream right behind); everything that was sent is delivered"""
    kind, = args
    items = alphabet(kind)
    vios = []
    stats = {"runs": 0, "streams": 0, "nontrivial": 0, "outcomes": set()}
    sample = None
    names = ["A", "A2", "B1"] + (["B2"] if "B2" in items else []) + ["A"]
    for count in (1, 2, len(names), 12):
        seq = (names * 3)[:count] if count > len(names) else names[:count]
        stream = b"".join(items[n] for n in seq)
        exp = expected(kind, stream)
        for cuts in ((), (len(stream) // 2,), tuple(range(7, len(stream), 7))):
            for how in ("eof", "reset_after_eof"):
                def last(sess, chunks=split(stream, cuts)):
                    c = sess.gw.live_conn()
                    if c is None:
                        return False
                    for ch in chunks:
                        sess.env(c.transport.env_feed, ch)
                    sess.env(c.transport.env_eof)
                    c.eof_sent = True
                    return True
                sess = vloop.Session(kind=kind, script=[it_connect, last])
                o = sess.run()
                stats["runs"] += 1
                stats["nontrivial"] += 1
                got = [v for _, v in o.received]
                stats["outcomes"].add(len(got))
                bad = sorted(k for k in ("livelock", "watchdog", "busy_loop") if o.flags.get(k))
                res = None
                if bad or o.end_reason != "quiescent":
                    res = ("hang", {"end": o.end_reason}, f"execution ended with {o.end_reason} {o.flags}")
                elif got != exp:
                    res = ("messages_lost_tail" if len(got) < len(exp) else "wrong_messages", {"expected": len(exp), "got": len(got), "mechanism": "eof_right_behind_data"},
                           f"{len(exp)} messages sent, {len(got)} delivered")
                if res:
                    vios.append({"kind": res[0], "facts": dict(res[1], client=kind), "signature": f"eofbehind:{res[0]}:{kind}",
                                 "detail": f"[{kind} {len(seq)} packets in {len(cuts) + 1} read(s), end of stream right behind them] {res[2]}",
                                 "case": {"client": kind, "eof_behind": True, "count": count, "cuts": list(cuts)}})
                elif sample is None:
                    sample = {"client": kind, "packets_then_eof_in_one_iteration": len(seq), "delivered": len(got)}
    stats["outcomes"] = len(stats["outcomes"])
    return stats, vios[:20], sample


def _task_settings(args):
    """'a decoder with the same settings': clients constructed with network mapping (and with a manufacturer list) deliver what
    a decoder constructed with those settings returns for the stream - claims, data before and after the claim, unclaimed sources"""
    kind, = args
    from .. import wire as _w
    vios = []
    stats = {"runs": 0, "streams": 0, "nontrivial": 0, "outcomes": set()}

    def pkt(pgn, src, data, prio=2):
        return clientkit.render_message(kind, prio, pgn, src, 255, data, False)[0]
    hd = bytes.fromhex("10270000ff7ffd")
    name9 = _w.iso_name(unique=77, mfr=1855).to_bytes(8, "little")
    name3 = _w.iso_name(unique=78, mfr=229).to_bytes(8, "little")
    packets = [pkt(127250, 9, bytes([1]) + hd), pkt(60928, 9, name9, 6), pkt(127250, 9, bytes([2]) + hd), pkt(127250, 10, bytes([3]) + hd),
               pkt(60928, 3, name3, 6), pkt(127250, 3, bytes([4]) + hd)]
    stream = b"".join(packets)
    for kw in ({"build_network_map": True}, {"exclude_manufacturer_code": ["Garmin"]}, {"build_network_map": True, "include_manufacturer_code": ["furuno"]},
               {"exclude_pgns": [127250]}, {"include_pgns": ["vesselHeading"]}):
        ref = NMEA2000Decoder(**kw)
        exp = [common.msg_view(m) for m in (clientkit.decode_one(ref, kind, p) for p in packets) if m is not None]
        for cuts in ((), tuple(range(7, len(stream), 7))):
            sess = vloop.Session(kind=kind, script=[it_connect] + [vloop.it_feed(c, 0) for c in split(stream, cuts)], client_kw=dict(kw))
            o = sess.run()
            stats["runs"] += 1
            stats["nontrivial"] += 1
            got = [v for _, v in o.received]
            stats["outcomes"].add(len(got))
            if o.end_reason != "quiescent" or got != exp:
                vios.append({"kind": "settings_not_honoured", "facts": {"client": kind, "settings": sorted(kw)}, "signature": f"settings:{kind}:{sorted(kw)}",
                             "detail": f"[{kind} client constructed with {kw}] delivered {[(g[0], g[4]) for g in got]} (PGN, source), a decoder with these settings returns "
                                       f"{[(e[0], e[4]) for e in exp]} ({o.end_reason})",
                             "case": {"client": kind, "settings": {k: v for k, v in kw.items()}}})
                break
    stats["outcomes"] = len(stats["outcomes"])
    return stats, vios, None


def _task_swap(args):
    """the receive callback is registered only after connect() and replaced between two bursts (each at a quiescent
    point): every message goes, once and in order, to the callback registered when it arrived"""
    kind, = args
    items = alphabet(kind)
    vios = []
    stats = {"runs": 0, "streams": 0, "nontrivial": 0, "outcomes": set()}
    sample = None
    bursts = [[items["A"], items["A2"]], [items["A2"], items["A"], items["B1"]] + ([items["B2"]] if "B2" in items else []), [items["A"]]]
    dec = NMEA2000Decoder()
    exp = [[common.msg_view(m) for m in (clientkit.decode_one(dec, kind, p) for p in b) if m is not None] for b in bursts]
    for initial in ("none", "other"):
        for seg in ("whole", "bytes"):
            got = {"0": [], "1": [], "2": [], "X": []}

            def make_cb(tag):
                async def cb(msg):
                    got[tag].append(common.msg_view(msg))
                return cb

            def set_cb(tag):
                def item(sess):
                    sess.client.set_receive_callback(make_cb(tag) if tag is not None else None)
                    return True
                return item
            script = [set_cb(None if initial == "none" else "X"), it_connect]
            for i, b in enumerate(bursts):
                script.append(set_cb(str(i)))
                data = b"".join(b)
                script += [vloop.it_feed(data, 0)] if seg == "whole" else [vloop.it_feed(data[j:j + 1], 0) for j in range(len(data))]
            sess = vloop.Session(kind=kind, script=script)
            o = sess.run()
            stats["runs"] += 1
            stats["nontrivial"] += 1
            stats["outcomes"].add(tuple(len(got[k]) for k in "012X"))
            bad = sorted(k for k in ("livelock", "watchdog", "busy_loop") if o.flags.get(k))
            res = None
            if bad or o.end_reason != "quiescent" or not o.flags.get("script_done"):
                res = ("hang", {"end": o.end_reason}, f"execution ended with {o.end_reason} {o.flags}")
            elif [got["0"], got["1"], got["2"]] != exp or got["X"]:
                res = ("delivered_to_stale_callback", {"mechanism": "callback_replaced"},
                       f"bursts of {[len(e) for e in exp]} messages, callbacks registered before each burst received {[len(got[k]) for k in '012']}, "
                       f"the callback registered before connect() received {len(got['X'])}")
            if res:
                vios.append({"kind": res[0], "facts": dict(res[1], client=kind), "signature": f"swap:{res[0]}:{kind}",
                             "detail": f"[{kind} callback before connect: {initial}; bursts fed {seg}] {res[2]}",
                             "case": {"client": kind, "swap": True, "initial": initial, "seg": seg}})
            elif sample is None:
                sample = {"client": kind, "callback_swaps": 3, "delivered_per_callback": [len(got[k]) for k in "012"]}
    # a second, redundant connect() on a client that is connected (documented as safe): the stream goes on undisturbed
    stream = b"".join(b"".join(b) for b in bursts)
    exp_all = [e for b in exp for e in b]
    for seg, between in (("whole", "connect"), ("bytes", "connect"), ("whole", "send"), ("bytes", "send"), ("whole", "bad_send")):
        script = [it_connect]
        for i, b in enumerate(bursts):
            data = b"".join(b)
            script += [vloop.it_feed(data, 0)] if seg == "whole" else [vloop.it_feed(data[j:j + 1], 0) for j in range(len(data))]
            # between the bursts the application calls connect() again, sends a message (the Actisense client has no encoder
            # and refuses), or tries to send one that cannot be encoded: none of it may disturb the incoming stream
            script.append(vloop.sp_connect if between == "connect" else
                          vloop.it_send((lambda: clientkit.heading_message(5)) if between == "send" else (lambda: clientkit.bad_messages()["unknown_pgn"])))
        sess = vloop.Session(kind=kind, script=script)
        o = sess.run()
        stats["runs"] += 1
        stats["nontrivial"] += 1
        gotv = [v for _, v in o.received]
        res = None
        if o.end_reason != "quiescent" or not o.flags.get("script_done"):
            res = ("hang", {"end": o.end_reason}, f"execution ended with {o.end_reason} {o.flags}")
        elif gotv != exp_all or len(sess.gw.conns) != 1:
            res = ("messages_lost_tail" if len(gotv) < len(exp_all) else "connection_disturbed", {"mechanism": "redundant_connect"},
                   f"{len(exp_all)} messages sent on one connection, {len(gotv)} delivered, {len(sess.gw.conns)} connection(s) opened, status {[n for _, n in o.status]}")
        if res:
            vios.append({"kind": res[0], "facts": dict(res[1], client=kind), "signature": f"reconnect2:{res[0]}:{kind}",
                         "detail": f"[{kind} {between}() called after every burst while connected; bursts fed {seg}] {res[2]}",
                         "case": {"client": kind, "swap": True, "initial": "redundant_" + between, "seg": seg}})
    stats["outcomes"] = len(stats["outcomes"])
    return stats, vios, sample


def _dispatch(t):
    if t[0] == "swap":
        return _task_swap(t[1:])
    if t[0] == "settings":
        return _task_settings(t[1:])
    if t[0] == "eofbehind":
        return _task_eof_behind(t[1:])
    if t[0] == "huge":
        return _task_huge(t[1:])
    if t[0] == "reconnect":
        return _task_reconnect(t[1:])
    return _task(t)


def mk(kind, seq, cuts, cb, devs, kk, f, d):
    return {"kind": kk, "facts": dict(f, client=kind), "signature": f"{kk}:{kind}:{seq}",
            "detail": f"[{kind} stream={list(seq)} cuts={list(cuts)[:6]}{'...' if len(cuts) > 6 else ''} callbacks={cb} devs={list(devs)}] {d}",
            "case": {"client": kind, "stream": list(seq), "cuts": list(cuts), "callbacks": cb, "deviations": [list(x) for x in devs]}}


def plan(ctx):
    tasks = []
    for kind in vloop.KINDS:
        names = list(alphabet(kind))
        s1 = [(a,) for a in names]
        s2 = list(itertools.product(names, repeat=2))
        s3 = list(itertools.product(names, repeat=3))
        if ctx.thorough:
            for i in range(0, len(s2), 4):
                tasks.append((kind, s2[i:i + 4], 3 if kind in ("ebyte", "waveshare") else 2, True, True))
            tasks.append((kind, s1, 3, True, True))
            for i in range(0, len(s3), 16):
                tasks.append((kind, s3[i:i + 16], 2 if kind in ("ebyte", "waveshare") else 1, False, False))
            core = [n for n in names if n in ("A", "B1", "B2", "BAD", "UNK")]
            s4 = list(itertools.product(core, repeat=4))
            for i in range(0, len(s4), 40):
                tasks.append((kind, s4[i:i + 40], 1, False, False))
        else:
            for a in s1:
                tasks.append((kind, [a], 2, True, True))
            for i in range(0, len(s2), 2):
                tasks.append((kind, s2[i:i + 2], 2 if kind in ("ebyte", "waveshare") else 1, True, False))
            for i in range(0, len(s3), 20):
                tasks.append((kind, s3[i:i + 20], 1, False, False))
    # heavy first: cost ~ (bytes ^ cuts)
    def cost(t):
        L = sum(len(alphabet(t[0])[n]) for n in t[1][0])
        return -(len(t[1]) * (L ** t[2]) * (20 if t[4] else 1) * (9 if t[3] else 1))
    tasks.sort(key=cost)
    return tasks


def run(ctx):
    tasks = plan(ctx) + [("huge", "yd"), ("huge", "actisense")] + [("reconnect", k) for k in vloop.KINDS] + [("swap", k) for k in vloop.KINDS] + [("eofbehind", k) for k in vloop.KINDS] + [("settings", k) for k in vloop.KINDS]
    results = common.pmap(_dispatch, tasks)
    vios, samples = [], []
    runs = streams = nontriv = outcomes = 0
    for st, v, s in results:
        vios += v
        runs += st["runs"]
        streams += st["streams"]
        nontriv += st["nontrivial"]
        outcomes = max(outcomes, st["outcomes"])
        if s and len(samples) < 4:
            samples.append(s)
    cov = {
        "states": streams, "transitions": runs, "traces_validated_against_impl": runs, "evaluations": runs,
        "distinct_nontrivial": nontriv, "distinct_outcomes": outcomes,
        "rule": "streams = sequences over the per-client packet alphabet; one execution per (stream, segmentation, callback pattern, "
                "early-delivery placement); plus, per client, a connection dropped (EOF / reset) after every prefix of a packet and a clean "
                "stream on the next connection; non-trivial = at least one cut or a failing/slow callback",
        "samples": samples,
        "bound_completed": ("streams <=3 items (<=4 over the core alphabet); <=3 cuts (binary clients) / <=2 cuts (text clients) for <=2 items" if ctx.thorough
                            else "streams <=3 items; <=2 cuts for 1 item, <=2 (binary) / <=1 (text) cuts for 2 items, <=1 cut for 3 items; all 3^n callback patterns on <=1-cut runs"),
        "exhaustive": True,
    }
    return {"coverage": cov, "violations": vios,
            "assumptions": ["expected output = a fresh decoder of the library fed the reference-framed packets (13/20-byte blocks, lines split at LF)",
                            "streams consist of whole packets (noise between packets is C20's subject)"]}


def replay(ctx, rep):
    c = rep["case"]
    kind = c["client"]
    if "settings" in c:
        st, v, _ = _task_settings((kind,))
        return [x for x in v if x["case"]["settings"] == c["settings"]][:1]
    if c.get("eof_behind"):
        st, v, _ = _task_eof_behind((kind,))
        return [x for x in v if x["case"]["count"] == c["count"] and x["case"]["cuts"] == c["cuts"]][:1]
    if c.get("swap"):
        st, v, _ = _task_swap((kind,))
        return [x for x in v if x["case"]["initial"] == c["initial"] and x["case"]["seg"] == c["seg"]][:1]
    if c.get("reconnect"):
        st, v, _ = _task_reconnect((kind,))
        return [x for x in v if all(x["case"][k] == c[k] for k in ("how", "j", "seg2"))][:1] or v[:1]
    items = alphabet(kind)
    stream = b"".join(items[n] for n in c["stream"])
    exp = expected(kind, stream)
    s, o = run_one(kind, split(stream, c["cuts"]), c["callbacks"], [tuple(d) for d in c["deviations"]])
    return [{"kind": k, "facts": dict(f, client=kind), "detail": d, "case": c} for k, f, d in judge(kind, stream, exp, s, o)]
