"""C17 - identity hash depends exactly on message kind and primary-key fields.

For every definition: payloads differing from a base in exactly one field (every field, up to
4 alternative raws) and in one key + one non-key field; the hash of every decoded message is
compared with (definition id, reported raw values of the fields the database marks as primary
key): equal key <=> equal hash, globally over all definitions.  The same payloads are decoded
with other sources / priorities / unit preferences / decoder instances and, for a subset, in a
second process with a different PYTHONHASHSEED: the hash must not move.  Map off => no hash."""
from __future__ import annotations

import itertools
import json
import os
import re
import subprocess
import sys

from .. import common, payloads, refdb, wire
from nmea2000.consts import PhysicalQuantities
from nmea2000.decoder import NMEA2000Decoder

ID = "C17"
PREFS = {PhysicalQuantities.TEMPERATURE: "C", PhysicalQuantities.PRESSURE: "bar", PhysicalQuantities.ANGLE: "deg", PhysicalQuantities.SPEED: "kts"}
HEX32 = re.compile(r"^[0-9a-f]{32}$")


def mapped_decoder(sources=(1, 2), **kw):
    d = NMEA2000Decoder(build_network_map=True, **kw)
    for s in sources:
        d.decode_tcp(wire.claim_packet(s, wire.iso_name(unique=1000 + s)))
    return d


def dec_line(dec, pgn, p, n, src=1, prio=3, dst=255):
    try:
        return dec.decode_basic_string(wire.plain_line(prio, pgn, src, dst, p.to_bytes(n, "little")), already_combined=True)
    except Exception:  # noqa: BLE001
        return None


def key_of(defn, msg):
    ks = []
    for i, f in enumerate(defn.fields):
        if f.pk and i < len(msg.fields):
            ks.append(repr(common.val_view(msg.fields[i].raw_value)))
    return (msg.id, tuple(ks))


def ref_key(defn, p):
    """the key read from the payload bits by the database layout (independent of what the decoder reports); None when a key
    field holds a reserved / out-of-range raw, where several raws legitimately read as 'no value'"""
    ks = []
    for f in defn.fields:
        if not f.pk:
            continue
        if f.bits is None or f.offset is None:
            return None
        raw = (p >> f.offset) & ((1 << f.bits) - 1)
        if f.type in refdb.NUMERIC:
            rr = f.raw_range()
            sv = f.to_signed(raw)
            if rr is None or not (rr[0] <= sv <= rr[1]):
                return None
        elif f.type == "LOOKUP":
            if f.bits >= 2 and raw >= (1 << f.bits) - 2:
                return None
        else:
            return None
        ks.append(raw)
    return (defn.id, tuple(ks)) if ks else None


def cases_for(defn, seed, deep=False):
    alph = [payloads.field_alphabet(f, seed)[:(40 if f.pk else (12 if deep else 5))] for f in defn.fields]
    seen = set()
    for b in (("mid", "max", "min", "ones", "zero") if deep else ("mid", "max")):
        base = payloads.base_assignment(defn, b)
        p, n = payloads.build(defn, base)
        if (p, n) not in seen:
            seen.add((p, n))
            yield (), p, n
        for combo, a in payloads.deviations(defn, base, alph, 2 if (deep and b == "mid" and len(defn.fields) <= 12) else 1):
            p, n = payloads.build(defn, a)
            if (p, n) not in seen:
                seen.add((p, n))
                yield combo, p, n
        keys = [i for i, f in enumerate(defn.fields) if f.pk and f.match is None]
        non = [i for i, f in enumerate(defn.fields) if not f.pk and f.match is None]
        # every key field with each single bit set, alone and on top of raw 1 (a key read with too few bits makes two of these meet)
        if b == "mid":
            for ki in keys:
                fk = defn.fields[ki]
                if not isinstance(base[ki], int) or fk.bits is None:
                    continue
                for bit in range(fk.bits):
                    for v0 in (0, 1):
                        a = list(base)
                        a[ki] = v0 ^ (1 << bit)
                        p, n = payloads.build(defn, a)
                        if (p, n) not in seen:
                            seen.add((p, n))
                            yield (ki,), p, n
        # two key fields at once over a grid of small raws: keys such as (1, 12) and (11, 2) must not meet
        if b == "mid":
            small = list(range(0, 13)) + [20, 21, 100, 101, 110, 111, 112, 120, 121]
            for ka, kb in itertools.combinations(keys, 2):
                fa, fb = defn.fields[ka], defn.fields[kb]
                if not (isinstance(base[ka], int) and isinstance(base[kb], int)):
                    continue
                for va in small:
                    if va >= (1 << fa.bits) - 1:
                        break
                    for vb in small:
                        if vb >= (1 << fb.bits) - 1:
                            break
                        a = list(base)
                        a[ka], a[kb] = va, vb
                        p, n = payloads.build(defn, a)
                        if (p, n) not in seen:
                            seen.add((p, n))
                            yield (ka, kb), p, n
        for ki in keys:
            for ni in non[:6]:
                for kt in alph[ki][:3]:
                    for nt in alph[ni][:2]:
                        a = list(base)
                        a[ki], a[ni] = kt, nt
                        p, n = payloads.build(defn, a)
                        if (p, n) not in seen:
                            seen.add((p, n))
                            yield (ki, ni), p, n


def late_unclaimed(db, seed, idxs):
    """after the 10-minute discovery window a decoder returns messages of sources that never claimed:
    with network mapping on they too must carry the hash (same value as for a claimed source)"""
    vios, n = [], 0
    common.set_clock_offset(0)
    dec = NMEA2000Decoder(build_network_map=True)
    ref = mapped_decoder()
    common.set_clock_offset(11)
    try:
        for di in idxs:
            defn = db.defs[di]
            for b in ("mid", "max"):
                p, nb = payloads.build(defn, payloads.base_assignment(defn, b))
                m = dec_line(dec, defn.pgn, p, nb, src=99)
                r = dec_line(ref, defn.pgn, p, nb, src=1)
                if m is None or r is None:
                    continue
                n += 1
                if m.hash != r.hash or not isinstance(m.hash, str) or not HEX32.match(m.hash):
                    vios.append({"kind": "hash_missing_or_malformed", "facts": {"definition": defn.id, "mechanism": "unclaimed_source_after_discovery_window"},
                                 "signature": f"late:{defn.pgn}",
                                 "detail": f"[PGN {defn.pgn} {defn.id}] source that never claimed, 11 minutes after start, network mapping on: hash {m.hash!r}, "
                                           f"the same payload from a claimed source hashes to {r.hash!r}",
                                 "case": {"pgn": defn.pgn, "definition": defn.id, "payload_hex": p.to_bytes(nb, "little").hex(), "late": True}})
    finally:
        common.set_clock_offset(0)
    return n, vios[:10]


def _task(args):
    idxs, seed = args[:2]
    deep = len(args) > 2 and args[2]
    db = refdb.db()
    A = mapped_decoder()
    B = mapped_decoder(preferred_units=PREFS)
    OFF = NMEA2000Decoder()
    h2k, k2h, h2r = {}, {}, {}
    vios = []
    st = {"cases": 0, "hashed": 0, "nontrivial": 0, "variants": 0, "key_defs": 0}
    sample = None
    xproc = []

    def v(kind, defn, p, n, detail, facts=None):
        if len(vios) < 60:
            vios.append({"kind": kind, "facts": dict(facts or {}, definition=defn.id), "signature": f"{kind}:{defn.pgn}:{defn.id}",
                         "detail": f"[PGN {defn.pgn} {defn.id} payload={p.to_bytes(n, 'little').hex()[:80]}] {detail}",
                         "case": {"pgn": defn.pgn, "definition": defn.id, "payload_hex": p.to_bytes(n, "little").hex()}})

    for di in idxs:
        defn = db.defs[di]
        if any(f.pk for f in defn.fields):
            st["key_defs"] += 1
        first = True
        for combo, p, n in cases_for(defn, seed, deep):
            st["cases"] += 1
            m = dec_line(A, defn.pgn, p, n)
            if m is None:
                continue
            ddef = db.by_id.get((m.PGN, m.id))
            if ddef is None:
                continue
            st["hashed"] += 1
            if combo:
                st["nontrivial"] += 1
            if not isinstance(m.hash, str) or not HEX32.match(m.hash):
                v("hash_missing_or_malformed", defn, p, n, f"hash = {m.hash!r} with network mapping on")
                continue
            k = key_of(ddef, m)
            if m.hash in h2k and h2k[m.hash] != k:
                v("hash_collision", defn, p, n, f"hash {m.hash} stands for {h2k[m.hash]} and for {k}", {"mechanism": "distinct keys, same hash"})
            if k in k2h and k2h[k] != m.hash:
                v("hash_not_function_of_key", defn, p, n, f"key {k} hashed to {k2h[k]} and to {m.hash}", {"mechanism": "same key, different hash"})
            h2k.setdefault(m.hash, k)
            k2h.setdefault(k, m.hash)
            rk = ref_key(ddef, p) if ddef is defn else None
            if rk is not None:
                if m.hash in h2r and h2r[m.hash] != rk:
                    v("hash_collision", defn, p, n, f"hash {m.hash} stands for payload key bits {h2r[m.hash]} and for {rk} (key fields read from the payload by the database layout)",
                      {"mechanism": "distinct payload keys, same hash"})
                h2r.setdefault(m.hash, rk)
            # variants: other source / priority / destination / unit preferences / decoder instance / map off
            if first or st["hashed"] % 4 == 0:
                for label, dec, kw in (("source 2, priority 6", A, dict(src=2, prio=6)), ("destination 17", A, dict(dst=17)),
                                       ("decoder with unit preferences", B, dict()), ("unit preferences, source 2", B, dict(src=2, prio=0))):
                    m2 = dec_line(dec, defn.pgn, p, n, **kw)
                    st["variants"] += 1
                    if m2 is None or m2.hash != m.hash:
                        v("hash_depends_on_context", defn, p, n, f"{label}: hash {getattr(m2, 'hash', None)!r} vs {m.hash!r}", {"variant": label})
                # the same payload arriving through the other entry points (frame by frame where the format is frame level)
                if first and 0 < n <= 223 and (defn.fast or n <= 8):
                    for ename, fn in wire.entry_points(defn.pgn, p.to_bytes(n, "little"), defn.fast, prio=3, src=1, dst=255).items():
                        try:
                            m4 = fn(A)
                        except Exception:  # noqa: BLE001
                            m4 = None
                        st["variants"] += 1
                        # only where the other entry point yields the same kind of message (whether it does is C07's subject)
                        if m4 is not None and (m4.PGN, m4.id) == (m.PGN, m.id) and m4.hash != m.hash:
                            v("hash_depends_on_context", defn, p, n, f"through {ename}: hash {getattr(m4, 'hash', None)!r} vs {m.hash!r}", {"variant": "entry point " + ename})
                m3 = dec_line(OFF, defn.pgn, p, n)
                st["variants"] += 1
                if m3 is not None and m3.hash is not None:
                    v("hash_without_map", defn, p, n, f"network mapping off but hash = {m3.hash!r}")
                if first and len(xproc) < 4:
                    xproc.append((defn.pgn, p.to_bytes(n, "little").hex(), m.hash, m.id))
                first = False
            if sample is None and combo and any(ddef.fields[i].pk for i in combo if i < len(ddef.fields)):
                sample = {"pgn": defn.pgn, "definition": m.id, "payload_hex": p.to_bytes(n, "little").hex(), "key": list(k[1]), "hash": m.hash}
    # the hash is the same whatever the logging configuration of the process (DEBUG logging evaluates more code)
    import logging
    root = logging.getLogger()
    old_level, old_disable = root.level, logging.root.manager.disable
    nh = logging.NullHandler()
    try:
        logging.disable(logging.NOTSET)
        root.addHandler(nh)
        root.setLevel(logging.DEBUG)
        for nm in ("nmea2000", "nmea2000.message", "nmea2000.decoder"):
            logging.getLogger(nm).setLevel(logging.DEBUG)
        for di in idxs:
            defn = db.defs[di]
            if not any(f.pk for f in defn.fields):
                continue
            for bname in ("mid", "max"):
                p, n = payloads.build(defn, payloads.base_assignment(defn, bname))
                m = dec_line(A, defn.pgn, p, n)
                st["variants"] += 1
                if m is None or not isinstance(m.hash, str):
                    continue
                k = key_of(db.by_id.get((m.PGN, m.id), defn), m)
                if k in k2h and k2h[k] != m.hash:
                    v("hash_depends_on_context", defn, p, n, f"with DEBUG logging enabled the key {k} hashes to {m.hash}, with logging off to {k2h[k]}", {"variant": "logging level DEBUG"})
    finally:
        root.removeHandler(nh)
        root.setLevel(old_level)
        for nm in ("nmea2000", "nmea2000.message", "nmea2000.decoder"):
            logging.getLogger(nm).setLevel(logging.NOTSET)
        logging.disable(old_disable)
    n_late, v_late = late_unclaimed(db, seed, idxs[:6])
    st["variants"] += n_late
    vios += v_late
    return st, vios, sample, h2k, xproc


CHILD = r"""
import sys, json
sys.path.insert(0, sys.argv[1]); sys.path.insert(1, sys.argv[2])
from mc.props.c17 import mapped_decoder, dec_line
d = mapped_decoder()
out = []
for pgn, hx, h, _mid in json.load(sys.stdin):
    b = bytes.fromhex(hx)
    m = dec_line(d, pgn, int.from_bytes(b, 'little'), len(b))
    out.append([m.id, m.hash] if m is not None else None)
print(json.dumps(out))
"""


def run(ctx):
    db = refdb.db()
    n = len(db.defs)
    order = sorted(range(n), key=lambda i: -len(db.defs[i].fields))
    nb = 48
    buckets = [[] for _ in range(nb)]
    for j, i in enumerate(order):
        buckets[j % nb].append(i)
    results = common.pmap(_task, [(b, ctx.seed, ctx.thorough) for b in buckets if b])
    vios, samples = [], []
    tot = {"cases": 0, "hashed": 0, "nontrivial": 0, "variants": 0, "key_defs": 0}
    glob = {}
    xproc = []
    for st, v, s, h2k, xp in results:
        vios += v
        for key in tot:
            tot[key] += st[key]
        if s and len(samples) < 4:
            samples.append(s)
        for h, k in h2k.items():
            if h in glob and glob[h] != k:
                vios.append({"kind": "hash_collision", "facts": {"mechanism": "distinct keys, same hash"}, "signature": f"xcoll:{h}",
                             "detail": f"hash {h} stands for {glob[h]} and for {k}", "case": {"hash": h}})
            glob.setdefault(h, k)
        xproc += xp
    # second process, different hash randomisation
    xproc = xproc[:60]
    env = dict(os.environ, PYTHONHASHSEED="12345")
    r = subprocess.run([sys.executable, "-c", CHILD, common.REPO, common.VERIF], input=json.dumps(xproc), capture_output=True, text=True, env=env)
    if r.returncode != 0:
        raise RuntimeError("cross-process child failed: " + r.stderr[-500:])
    other = json.loads(r.stdout.strip().splitlines()[-1])
    for (pgn, hx, h, mid), o2 in zip(xproc, other):
        if o2 is None or o2[0] != mid:
            continue                      # the other process decoded another kind of message: not the hash's doing
        h2 = o2[1]
        if h != h2:
            vios.append({"kind": "hash_differs_between_processes", "facts": {"pgn": pgn}, "signature": f"xproc:{pgn}",
                         "detail": f"[PGN {pgn} payload={hx[:60]}] {h} in this process, {h2} in a second process", "case": {"pgn": pgn, "payload_hex": hx}})
    cov = {
        "states": tot["cases"], "transitions": tot["hashed"] + tot["variants"], "traces_validated_against_impl": tot["hashed"] + tot["variants"],
        "evaluations": tot["cases"] + tot["variants"], "distinct_nontrivial": tot["nontrivial"], "distinct_outcomes": len(glob),
        "rule": "cases = payloads differing from bases mid/max in one field, in one key + one non-key field, or in two key fields (grid of 22 small raws each); hashed = those that decode; "
                "distinct_outcomes = distinct hashes seen; non-trivial = at least one field off base",
        "samples": samples, "definitions_with_key_fields": tot["key_defs"], "cross_process_payloads": len(xproc),
        "bound_completed": ("single-field deviations from 5 bases (<=12 raws per field, all for key fields), two-field deviations from base mid for definitions of <=12 fields, key x non-key pairs, key x key pairs (22 x 22 small raws); first payload of every definition through 6 entry points" if ctx.thorough else "all single-field deviations (<=5 raws per field, all for key fields), key x non-key pairs and key x key pairs (22 x 22 small raws) from bases mid and max; first payload of every definition through 6 entry points"), "exhaustive": True,
    }
    return {"coverage": cov, "violations": vios,
            "assumptions": ["key equality is taken over the reported raw values of the fields the database flags PartOfPrimaryKey",
                            "each source used has claimed an address first (network mapping withholds unclaimed sources)"]}


def replay(ctx, rep):
    c = rep["case"]
    if "payload_hex" not in c:
        return []
    db = refdb.db()
    st, vios, _, _, _ = _task(([db.by_id[(c["pgn"], c["definition"])].idx] if "definition" in c else [], 0))
    return [v for v in vios if v["kind"] == rep.get("kind")][:1]
