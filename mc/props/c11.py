"""C11 - messages carry the identity of their source's latest address claim; manufacturer filters.

Explicit-state BFS to a fixed point per configuration (network map on/off x manufacturer
exclude/include lists in several letter cases x claim PGN filtered or not) over histories of
claims (four NAMEs, one with a manufacturer code the database does not know), single-frame data and
the two frames of a fast-packet message, from two source addresses.  Reference: a map source ->
last NAME, decoded with the database by mc/refdb.py."""
from __future__ import annotations

from .. import common, refdb, wire, xstate
from nmea2000.decoder import NMEA2000Decoder

ID = "C11"

_A = dict(unique=1001, mfr=229, inst_lower=1, inst_upper=2, function=130, dev_class=25, sys_inst=3, industry=4)
NAMES = {
    "a": wire.iso_name(**_A),                                                                                                   # Garmin
    "b": wire.iso_name(unique=1002, mfr=1855, inst_lower=0, inst_upper=0, function=140, dev_class=10, sys_inst=0, industry=4),   # Furuno
    "c": wire.iso_name(unique=1003, mfr=229, inst_lower=5, inst_upper=20, function=150, dev_class=40, sys_inst=9, industry=4),   # Garmin, other unit (all-ones instance parts are ambiguous in the database: avoided)
    "u": wire.iso_name(unique=1004, mfr=2046, inst_lower=2, inst_upper=1, function=130, dev_class=25, sys_inst=1, industry=4),   # manufacturer code not in the database
    "z": 0,                                                                                                                      # a NAME of all zeros is a claim like any other
    # re-claims that differ from "a" in exactly one part of the NAME (a comparison of only part of the NAME shows here)
    "d": wire.iso_name(**dict(_A, inst_lower=4, inst_upper=9, function=140, dev_class=10)),   # same unique number and manufacturer, other instance/function/class
    "e": wire.iso_name(**dict(_A, unique=1001 + (1 << 20))),                                  # only a high bit of the unique number differs
    "f": wire.iso_name(**dict(_A, inst_lower=2)),                                             # only the lower instance differs
    "g": wire.iso_name(**dict(_A, sys_inst=4)),                                               # only the system instance differs
    "h": wire.iso_name(**dict(_A, mfr=1855)),                                                 # only the manufacturer differs
    "i": wire.iso_name(**dict(_A, aac=0)),                                                    # only the arbitrary-address-capable bit differs
}
SOURCES = (0, 2)      # address 0 is legal (and falsy)


def ref_identity(name):
    """(unique, manufacturer, instance, function, class, NAME) per the database"""
    if name is None:
        return None
    d = refdb.db()
    unique = name & 0x1FFFFF
    mfr = (name >> 21) & 0x7FF
    lower, upper = (name >> 32) & 7, (name >> 35) & 0x1F
    func, cls = (name >> 40) & 0xFF, (name >> 49) & 0x7F
    return (unique, d.lookups["MANUFACTURER_CODE"].get(mfr), (upper << 3) | lower, d.indirect["DEVICE_FUNCTION"].get((cls, func)),
            d.lookups["DEVICE_CLASS"].get(cls), name)


def got_identity(n):
    if n is None:
        return None
    return (n.unique_number, n.manufacturer_code, n.device_instance, n.device_function, n.device_class, n.name)


def packets():
    ev = {}
    for s in SOURCES:
        for k, name in NAMES.items():
            ev[f"claim_{k}{s}"] = wire.claim_packet(s, name)
        ev[f"d{s}"] = wire.ebyte_packet(wire.can_id(2, 127250, s, 255), bytes([s]) + bytes.fromhex("10270000ff7ffd"))
        # the same data through the text entry points, stamped by the gateway far away from the decoder's own clock
        # (an Actisense gateway up for two days, a log line dated 2099): the discovery window is the decoder's, not the message's
        hd = bytes([s]) + bytes.fromhex("10270000ff7ffd")
        ev[f"dA{s}"] = ("actisense", wire.actisense_line(2, 255, s, 127250, hd, ts="A173321.107"))
        ev[f"dP{s}"] = ("plain", wire.plain_line(2, 127250, s, 255, hd, ts="2099-01-01-12:00:00.000"))
        fr = wire.fast_frames(2 + s, bytes([0x02, 0x00]) + bytes(range(20 + s, 27 + s)))
        ident = wire.can_id(3, 130816, s, 255)
        ev[f"f0_{s}"] = wire.ebyte_packet(ident, fr[0])
        ev[f"f1_{s}"] = wire.ebyte_packet(ident, fr[1])
    return ev


class Cfg:
    def __init__(self, map_on, mode, mlist, claim_filtered):
        self.map_on, self.mode, self.mlist, self.claim_filtered = map_on, mode, tuple(mlist), claim_filtered

    def decoder(self):
        kw = {"build_network_map": self.map_on}
        if self.mlist:
            kw["exclude_manufacturer_code" if self.mode == "exclude" else "include_manufacturer_code"] = list(self.mlist)
        if self.claim_filtered:
            kw["exclude_pgns"] = [60928]
        return NMEA2000Decoder(**kw)

    def label(self):
        return f"map={'on' if self.map_on else 'off'} {self.mode}={list(self.mlist)} claim_filtered={self.claim_filtered}"

    def permitted(self, name):
        if name is None:
            return not self.map_on
        mfr = ref_identity(name)[1]
        low = [m.lower() for m in self.mlist]
        if self.mode == "exclude":
            return mfr is None or mfr.lower() not in low
        if not low:
            return True
        return mfr is not None and mfr.lower() in low


class State:
    def __init__(self, cfg):
        self.dec = cfg.decoder()
        self.names = {s: None for s in SOURCES}
        self.have0 = {s: False for s in SOURCES}
        self.maybe0 = {s: False for s in SOURCES}
        self.held = []       # (source, message object the application still holds, its identity when it was returned): the last few


def run_config(args):
    map_on, mode, mlist, claim_filtered, names_used, max_states = args
    cfg = Cfg(map_on, mode, mlist, claim_filtered)
    pk = packets()
    evnames = [n for n in pk if not n.startswith("claim_") or n[6] in names_used]

    def enabled(s):
        return evnames

    def viol(kind, ev, detail, facts=None):
        return {"kind": kind, "facts": dict(facts or {}, config=cfg.label()), "detail": f"[{cfg.label()} event {ev}] {detail}",
                "signature": f"{kind}:{cfg.label()}:{(facts or {}).get('mechanism')}",
                "case": {"map_on": map_on, "mode": mode, "mlist": list(mlist), "claim_filtered": claim_filtered}}

    def step(s, ev):
        out = step_inner(s, ev)
        if out:
            return out
        # messages returned earlier are the application's: a later claim must not change the identity they carry
        for src0, obj, ident in s.held:
            if got_identity(obj.source_iso_name) != ident:
                return [viol("returned_message_changed_later", ev, f"a message returned earlier from source {src0} carried {ident}; after this event the same object carries "
                                                                    f"{got_identity(obj.source_iso_name)}", {"mechanism": "identity_object_shared"})]
        return []

    def step_inner(s, ev):
        src = int(ev[-1])
        try:
            if isinstance(pk[ev], tuple):
                m = (s.dec.decode_actisense_string if pk[ev][0] == "actisense" else s.dec.decode_basic_string)(pk[ev][1])
            else:
                m = s.dec.decode_tcp(pk[ev])
        except Exception as ex:  # noqa: BLE001
            return [viol("decoder_raises", ev, f"{type(ex).__name__}: {ex}")]
        if m is not None:
            s.held = (s.held + [(src, m, got_identity(m.source_iso_name))])[-4:]
        other = [x for x in SOURCES if x != src][0]
        if ev.startswith("claim_"):
            name = NAMES[ev[6]]
            s.names[src] = name
            if claim_filtered:
                if m is not None:
                    return [viol("claim_not_filtered", ev, "claim returned although PGN 60928 is excluded")]
                return []
            if m is None:
                return [viol("claim_dropped", ev, "address claim not returned")]
            if got_identity(m.source_iso_name) != ref_identity(name):
                return [viol("claim_identity_wrong", ev, f"claim carries {got_identity(m.source_iso_name)}, database decode of the NAME is {ref_identity(name)}")]
            return []
        name = s.names[src]
        ok = cfg.permitted(name)
        mech = None
        if name is not None and ref_identity(name)[1] is None:
            mech = "unknown_manufacturer_code"
        if ev.startswith("d"):
            if ok and m is None:
                return [viol("data_withheld", ev, f"source {src} (claimed {ref_identity(name)}) is permitted but its message was not returned", {"mechanism": mech})]
            if not ok and m is not None:
                return [viol("data_leaked", ev, f"source {src} (claimed {ref_identity(name)}) is not permitted but its message was returned", {"mechanism": mech})]
            if m is not None and got_identity(m.source_iso_name) != ref_identity(name):
                return [viol("identity_wrong", ev, f"message from {src} carries {got_identity(m.source_iso_name)}, latest claim decodes to {ref_identity(name)}")]
            return []
        if ev.startswith("f0_"):
            s.have0[src] = ok
            s.maybe0[src] = True
            if m is not None:
                return [viol("early_fast_message", ev, "a message was returned at the first frame")]
            return []
        # f1
        must = ok and s.have0[src]
        may = ok and s.maybe0[src]
        if m is not None:
            s.have0[src] = False
            s.maybe0[src] = False
        elif must:
            s.have0[src] = False
        if must and m is None:
            return [viol("fast_withheld", ev, f"both frames from {src} were fed while permitted but nothing was returned", {"mechanism": mech})]
        if m is not None and not may:
            return [viol("fast_leaked", ev, f"fast-packet message from {src} returned although {'not permitted' if not ok else 'its first frame was never fed'}", {"mechanism": mech})]
        if m is not None and got_identity(m.source_iso_name) != ref_identity(name):
            return [viol("identity_wrong", ev, f"fast message from {src} carries {got_identity(m.source_iso_name)}, latest claim decodes to {ref_identity(name)}")]
        return []

    def key(s):
        return common.canon_key([s.dec, sorted(s.names.items()), sorted(s.have0.items()), sorted(s.maybe0.items())])

    def nontrivial(s):
        return sum(1 for v in s.names.values() if v is not None) >= 1 and (len(getattr(s.dec, "data", ())) > 0 or all(v is not None for v in s.names.values()))

    res = xstate.bfs(State(cfg), enabled, step, key, max_states=max_states, nontrivial=nontrivial, stop_after=8)
    return {"label": cfg.label(), "states": res.states, "transitions": res.transitions, "depth": res.max_depth, "closed": res.closed,
            "nontrivial": res.nontrivial, "violations": res.violations, "sample": res.samples[:1]}


def late_construction():
    """a decoder created long after the library was imported (a long-running process that opens another gateway): its
    discovery window starts when IT is created.  The frozen clock is moved to eleven minutes after the real import time."""
    import datetime as _dt
    vios, n = [], 0
    pk = packets()
    minutes = (_dt.datetime.now() - common.FROZEN_NOW).total_seconds() / 60.0 + 11.0
    common.set_clock_offset(minutes)
    try:
        for mode, ml in (("exclude", ()), ("exclude", ("Garmin",)), ("include", ("furuno",))):
            cfg = Cfg(True, mode, ml, False)
            dec = cfg.decoder()
            names = {s: None for s in SOURCES}
            for ev in ("d0", "d2", "claim_a0", "d0", "d2", "claim_b2", "d2", "d0"):
                src = int(ev[-1])
                m = dec.decode_tcp(pk[ev])
                n += 1
                if ev.startswith("claim_"):
                    names[src] = NAMES[ev[6]]
                    continue
                ok = cfg.permitted(names[src])
                if (m is not None) != ok:
                    vios.append({"kind": "data_leaked" if m is not None else "data_withheld", "facts": {"config": cfg.label(), "mechanism": "decoder_created_late"},
                                 "signature": f"late:{cfg.label()}:{ev}",
                                 "detail": f"[{cfg.label()}, decoder created 11 minutes after the library was imported, event {ev}] source {src} (claimed "
                                           f"{ref_identity(names[src])}) is {'not ' if not ok else ''}permitted but its message was {'returned' if m is not None else 'not returned'}",
                                 "case": {"late_construction": True, "mode": mode, "mlist": list(ml)}})
                    break
    finally:
        common.set_clock_offset(0)
    return n, vios


def _client_task(args):
    """the same through a gateway client that loses its link and reconnects by itself: what the sources claimed on the first
    connection still holds on the second (the client's decoder is one long-lived decoder)"""
    kind, map_on, mode, mlist = args
    from .. import clientkit, vloop
    kw = {"build_network_map": map_on}
    if mlist:
        kw["exclude_manufacturer_code" if mode == "exclude" else "include_manufacturer_code"] = list(mlist)

    def pkt(pgn, src, data, prio=2):
        return clientkit.render_message(kind, prio, pgn, src, 255, data, False)[0]
    hd = bytes.fromhex("10270000ff7ffd")
    claims = pkt(60928, 0, NAMES["a"].to_bytes(8, "little"), 6) + pkt(60928, 2, NAMES["b"].to_bytes(8, "little"), 6)
    data1 = pkt(127250, 0, bytes([1]) + hd) + pkt(127250, 2, bytes([2]) + hd)
    data2 = pkt(127250, 0, bytes([3]) + hd) + pkt(127250, 2, bytes([4]) + hd) + pkt(127250, 9, bytes([5]) + hd)
    # reference: one decoder fed everything in order
    ref = NMEA2000Decoder(**kw)
    exp = []
    for chunk in (claims, data1, data2):
        for one in ([chunk[i:i + 13] for i in range(0, len(chunk), 13)] if kind == "ebyte" else
                    [chunk[i:i + 20] for i in range(0, len(chunk), 20)] if kind == "waveshare" else chunk.splitlines(keepends=True)):
            m = clientkit.decode_one(ref, kind, one)
            if m is not None:
                exp.append(common.msg_view(m))
    vios, n = [], 0
    for how in ("eof", "reset"):
        drop = (lambda sess: (vloop.sp_eof(sess) or True)) if how == "eof" else (lambda sess: (vloop.sp_reset(sess) or True))

        def feed1(sess):
            if len(sess.gw.conns) < 2 or sess.client.state != vloop.State.CONNECTED:
                return False
            sess.env(sess.gw.conns[1].transport.env_feed, data2)
            return True
        sess = vloop.Session(kind=kind, script=[vloop.it_connect, vloop.it_feed(claims, 0), vloop.it_feed(data1, 0), drop, feed1], client_kw=kw)
        o = sess.run()
        n += 1
        got = [v for _, v in o.received]
        if o.end_reason != "quiescent" or not o.flags.get("script_done"):
            vios.append({"kind": "client_session_stuck", "facts": {"client": kind}, "signature": f"client:stuck:{kind}",
                         "detail": f"[{kind} client, {how}, {kw}] session ended with {o.end_reason} {o.flags}", "case": {"client": kind, "how": how}})
        elif got != exp:
            i = next((i for i, (g, e) in enumerate(zip(got, exp)) if g != e), min(len(got), len(exp)))
            what = "identity" if i < len(got) and i < len(exp) and got[i][:8] == exp[i][:8] else "delivery"
            vios.append({"kind": "identity_lost_on_reconnect" if what == "identity" else ("data_leaked" if len(got) > len(exp) else "data_withheld"),
                         "facts": {"client": kind, "mechanism": "reconnect"}, "signature": f"client:{what}:{kind}:{map_on}:{mode}",
                         "detail": f"[{kind} client map={'on' if map_on else 'off'} {mode}={list(mlist)}; claims and data on connection 0, {how}, data on connection 1] "
                                   f"delivered {len(got)} messages, a decoder fed the same inputs returns {len(exp)}; first difference at position {i}: "
                                   f"{str(got[i][8] if i < len(got) else None)[:80]} vs {str(exp[i][8] if i < len(exp) else None)[:80]}",
                         "case": {"client": kind, "how": how, "map_on": map_on, "mode": mode, "mlist": list(mlist)}})
    return n, vios


def configs(ctx):
    lists = [("exclude", ())] + [(m, l) for m in ("exclude", "include") for l in (("Garmin",), ("GARMIN",), ("furuno",), ("Garmin", "Furuno"))]
    out = []
    for map_on in (False, True):
        for mode, ml in lists:
            for cf in (False, True):
                out.append((map_on, mode, ml, cf))
    return out


def run(ctx):
    cfgs = configs(ctx)
    names_used = "abcuzdefghi" if ctx.thorough else "abuzd"
    results = common.pmap(run_config, [c + (names_used, 60000) for c in cfgs])
    from .. import vloop as _vl
    ctasks = [(k, m, mode, ml) for k in _vl.KINDS for m in (False, True) for mode, ml in (("exclude", ()), ("exclude", ("Garmin",)), ("include", ("furuno",)))]
    cres = common.pmap(_client_task, ctasks)
    vios, samples, per = [], [], {}
    for cn, cv in cres:
        vios += cv
    client_runs = sum(cn for cn, _ in cres)
    ln, lv = late_construction()
    vios += lv
    states = trans = nontriv = depth = 0
    closed = True
    for r in results:
        vios += r["violations"]
        states += r["states"]
        trans += r["transitions"]
        nontriv += r["nontrivial"]
        depth = max(depth, r["depth"])
        closed = closed and (r["closed"] or bool(r["violations"]))
        per[r["label"]] = {"states": r["states"], "transitions": r["transitions"], "closed": r["closed"]}
        if r["sample"] and len(samples) < 3:
            samples.append({"config": r["label"], "history": r["sample"][0]})
    cov = {
        "states": states, "transitions": trans, "traces_validated_against_impl": trans, "evaluations": trans,
        "distinct_nontrivial": nontriv, "distinct_outcomes": 1 + len({v["kind"] for v in vios}),
        "rule": "BFS states of (real decoder, reference map source -> NAME, fast-frame bookkeeping); non-trivial = both sources have "
                "claimed, or one has and a fast-packet message is partly received",
        "samples": samples, "configurations": len(cfgs), "configs": per, "max_depth": depth, "client_sessions_with_reconnect": client_runs,
        "bound_completed": f"fixed point in every configuration; NAME alphabet {list(names_used)} x 2 sources; 4 clients x 6 configurations x EOF / reset between claims and data", "exhaustive": closed,
    }
    return {"coverage": cov, "violations": vios,
            "assumptions": ["clock frozen inside the 10-minute discovery window",
                            "a fast-packet message whose first frame was fed while its source was not permitted may or may not be returned"]}


def replay(ctx, rep):
    c = rep["case"]
    if c.get("late_construction"):
        return late_construction()[1][:1]
    if "client" in c:
        n, v = _client_task((c["client"], c.get("map_on", False), c.get("mode", "exclude"), tuple(c.get("mlist", ()))))
        return [x for x in v if x["case"]["how"] == c["how"]][:1]
    cfg_args = (c["map_on"], c["mode"], tuple(c["mlist"]), c["claim_filtered"], "abcuzdefghi", 10)
    hist = c["history"]
    orig = xstate.bfs

    def forced(init, enabled, step, key, **kw):
        out = xstate.SearchResult()
        for i, ev in enumerate(hist):
            v = step(init, ev)
            if v:
                for x in v:
                    x = dict(x)
                    x["case"] = dict(x.get("case", {}), history=hist[:i + 1])
                    out.violations.append(x)
                break
        return out
    xstate.bfs = forced
    try:
        r = run_config(cfg_args)
    finally:
        xstate.bfs = orig
    return r["violations"]
