"""C19 - send() writes the encoder's packets contiguously; bad messages are harmless.

Stateless exploration on the virtual loop.  (A) 2-3 concurrent send() calls - good messages, and
an unencodable one before / between / after two good ones - x every pattern of the transport
suspending / not suspending each write (binary choice per write, resumed when nothing else can run); (B) unencodable messages sent at every loop boundary of a session;
(C) a failing write at each packet index, and a reset placed at every boundary of a fully
back-pressured send."""
from __future__ import annotations

import itertools

from .. import clientkit, common, vloop, wire
from ..vloop import it_connect, it_feed, it_send, it_send_many, sp_reset, steady_state
from nmea2000.encoder import NMEA2000Encoder

ID = "C19"

MSGS = {"iso": clientkit.iso_request_message, "hdg": lambda: clientkit.heading_message(66),
        "gnss": clientkit.gnss_message, "fast2": clientkit.fast2_message}
# messages the encoder refuses: sent among good ones they must write nothing and leave the others' packets contiguous
BAD = {"bad_range": lambda: clientkit.bad_messages()["out_of_range"], "bad_missing": lambda: clientkit.bad_messages()["missing_field"]}
ALL_MSGS = dict(MSGS, **BAD)
SEND_KINDS = ("ebyte", "yd", "waveshare")
CONFIG_WRITES = {"waveshare": 1}


def encode_ref(kind, enc, msg):
    if kind == "ebyte":
        return enc.encode_ebyte(msg)
    if kind == "yd":
        return enc.encode_yacht_devices(msg)
    return enc.encode_usb(msg)


def expected_packets(kind, names):
    enc = NMEA2000Encoder()
    out = []
    for n in names:
        try:
            out.append(list(encode_ref(kind, enc, ALL_MSGS[n]())))
        except ValueError:
            out.append([])
    return out


# ------------------------------------------------------------------ part A
def run_a(kind, names, mode, mask):
    skip = CONFIG_WRITES.get(kind, 0)

    def setup(gw):
        gw.pause_policy = lambda idx: idx >= skip and (mask >> (idx - skip)) & 1 == 1
    script = [it_connect]
    if mode == "together":
        script.append(it_send_many([ALL_MSGS[n] for n in names]))
    else:
        script += [it_send(ALL_MSGS[n], name=f"send-{n}") for n in names]
    sess, o = vloop.run_session(kind=kind, script=script, setup=setup)
    return sess, o


def judge_a(kind, names, sess, o):
    skip = CONFIG_WRITES.get(kind, 0)
    bad = sorted(k for k in ("livelock", "watchdog", "busy_loop") if o.flags.get(k))
    if bad or o.end_reason != "quiescent" or not o.flags.get("script_done"):
        return [("harness_or_hang", {"end": o.end_reason}, f"execution ended with {o.end_reason}, flags {o.flags}")]
    written = [w for c in sess.gw.conns for w in c.written][skip:]
    exp = expected_packets(kind, names)
    for perm in itertools.permutations(range(len(names))):
        if written == [p for i in perm for p in exp[i]]:
            return []
    flat = sorted(p for e in exp for p in e)
    if sorted(written) == flat:
        return [("interleaved", {"n_messages": len(names)},
                 f"packets of concurrent messages interleaved: wrote {[w.hex()[:14] for w in written]}")]
    return [("wrong_bytes", {}, f"wrote {[w.hex() for w in written]} expected some order of {[[p.hex() for p in e] for e in exp]}")]


def n_writes(kind, names):
    return sum(len(e) for e in expected_packets(kind, names))


def _task_a(args):
    kind, names, mode, max_pauses = args
    W = n_writes(kind, names)
    vios, outcomes, runs, nontriv = [], set(), 0, 0
    sample = None
    for mask in range(1 << W):
        if max_pauses is not None and bin(mask).count("1") > max_pauses:
            continue
        sess, o = run_a(kind, names, mode, mask)
        runs += 1
        written = tuple(w for c in sess.gw.conns for w in c.written)
        outcomes.add(written)
        if mask:
            nontriv += 1
        for k, f, d in judge_a(kind, names, sess, o):
            vios.append({"kind": k, "facts": dict(f, client=kind, part="A"),
                         "signature": f"A:{k}:{kind}:{names}:{mode}",
                         "detail": f"[{kind} sends={names} mode={mode} pause_mask={mask:b}] {d}",
                         "case": {"part": "A", "client": kind, "names": list(names), "mode": mode, "mask": mask}})
        if sample is None and mask == (1 << W) - 1:
            sample = {"part": "A", "client": kind, "sends": list(names), "mode": mode, "pause_mask": f"{mask:b}",
                      "writes": [w.hex()[:16] for w in written]}
    return {"runs": runs, "outcomes": len(outcomes), "nontrivial": nontriv, "vios": vios, "sample": sample, "W": W}


# ------------------------------------------------------------------ part B
def bad_factory(name):
    if name == "good_on_actisense":
        return lambda: clientkit.heading_message(5)
    return lambda: clientkit.bad_messages()[name]


def make_b(kind, badname, never_connected=False):
    pk = clientkit.std(kind)

    def make_idle(devs):
        # a client on which connect() was never called: an unsendable message must not make it connect either
        return dict(kind=kind, script=[vloop.it_wait(0.5), vloop.it_wait(0.5)], specials={"bad": vloop.sp_send(bad_factory(badname))}, deviations=devs)
    if never_connected:
        return make_idle

    def make(devs):
        return dict(kind=kind, script=[it_connect, it_feed(pk["A"][:6]), it_feed(pk["A"][6:]), it_feed(pk["A2"])],
                    specials={"bad": vloop.sp_send(bad_factory(badname))}, deviations=devs,
                    heal=steady_state(pk["PROBE"]), connect_plan=("refuse", "accept"))
    return make


def view_b(sess, o):
    return {"status": [n for _, n in o.status], "attempts": len(sess.gw.attempts),
            "written": [w.hex() for c in sess.gw.conns for w in c.written],
            "received": [v for _, v in o.received], "final": o.states[-1] if o.states else None,
            "end": o.end_reason, "conns": len(sess.gw.conns)}


def _task_b(args):
    kind, badname = args[:2]
    idle = len(args) > 2 and args[2]
    make = make_b(kind, badname, idle)
    base = {}
    vios, outcomes = [], set()
    stats = {"nontrivial": 0}
    sample = []

    def on_exec(devs, sess, o):
        v = view_b(sess, o)
        if not devs:
            base.update(v)
            return
        outcomes.add(repr(v))
        # is the send landing at a point where a connection exists?
        if sess.client.writer is not None or idle:
            stats["nontrivial"] += 1
        diff = [k for k in v if v[k] != base[k]]
        if diff:
            kindv = "bad_message_disturbs"
            facts = {"client": kind, "part": "B", "bad": badname, "changed": diff}
            vios.append({"kind": kindv, "facts": facts, "signature": f"B:{kind}:{badname}:{diff}",
                         "detail": f"[{kind} bad={badname} at {devs}{' on a client that never connected' if idle else ''}] differs from the undisturbed session in {diff}: "
                                   f"{ {k: (base[k] if k != 'received' else len(base[k]), v[k] if k != 'received' else len(v[k])) for k in diff} }",
                         "case": {"part": "B", "client": kind, "bad": badname, "idle": bool(idle), "deviations": [list(d) for d in devs]}})
        if not sample:
            sample.append({"part": "B", "client": kind, "bad": badname, "deviations": [list(d) for d in devs], "status": v["status"]})

    cnt = vloop.explore_placements(make, ["bad"], 1, on_exec)
    return {"runs": cnt["runs"], "outcomes": len(outcomes), "nontrivial": stats["nontrivial"], "vios": vios,
            "sample": sample[0] if sample else None}


# ------------------------------------------------------------------ part C
WRITE_ERRORS = {"pipe": None, "timeout": lambda: TimeoutError(110, "Connection timed out (injected)"),
                "unreachable": lambda: OSError(113, "No route to host (injected)"),
                # the same errors raised by write() itself while the read side of the link stays healthy: the
                # DISCONNECTED report and the reconnection must then come from send()'s own failure handling
                "sync-timeout": lambda: TimeoutError(110, "Connection timed out (injected, write only)"),
                "sync-runtime": lambda: RuntimeError("unable to perform operation on the transport (injected, write only)")}


def run_c1(kind, name, fail_at, err="pipe"):
    skip = CONFIG_WRITES.get(kind, 0)
    pk = clientkit.std(kind)

    def setup(gw):
        state = {"done": False}
        gw.write_error = WRITE_ERRORS[err]
        gw.write_error_sync = err.startswith("sync-")

        def pol(idx):
            if not state["done"] and idx == skip + fail_at:
                state["done"] = True
                return True
            return False
        gw.fail_policy = pol
    def second(sess):
        # once the client is connected again, the application sends another message: it must be written like any other
        if len(sess.gw.conns) < 2 or sess.client.state != vloop.State.CONNECTED:
            return False
        sess.obs.marks["second_send_at"] = len(sess.gw.log)
        sess.spawn(sess.client.send(MSGS["hdg"]()), "send-after-recovery")
        return True
    return vloop.run_session(kind=kind, script=[it_connect, it_send(MSGS[name]), second], setup=setup, heal=steady_state(pk["PROBE"]))


def judge_c(sess, o, fault_kind):
    bad = sorted(k for k in ("livelock", "watchdog", "busy_loop") if o.flags.get(k))
    if bad or o.end_reason != "quiescent":
        return [("hang", {"end": o.end_reason}, f"execution ended with {o.end_reason}, flags {o.flags}")]
    out = []
    log = sess.gw.log
    last = None
    for i, ev in enumerate(log):
        if ev[0] == "status":
            last = ev[1]
        is_fault = ev[0] == "write_failed" or (ev[0] == "special" and ev[1] == "reset")
        if is_fault and last == "CONNECTED":
            rest = log[i + 1:]
            if not any(e[0] == "status" and e[1] == "DISCONNECTED" for e in rest):
                out.append(("write_failure_not_reported", {"fault": fault_kind}, f"no DISCONNECTED after the failure; log {log[i:]}"))
            elif not any(e[0] == "attempt" for e in rest):
                out.append(("no_reconnect_after_write_failure", {"fault": fault_kind}, f"log {log[i:]}"))
    if (o.states[-1] if o.states else None) != "CONNECTED":
        out.append(("not_reconnected", {"fault": fault_kind}, f"final state {o.states[-1] if o.states else None}; status {o.status}"))
    at = o.marks.get("second_send_at")
    if at is not None and not out:
        later = [bytes.fromhex(e[2]) for e in log[at:] if e[0] == "write"]
        want = [bytes(p) for p in encode_ref(sess.kind, NMEA2000Encoder(), MSGS["hdg"]())]
        # (a single-frame message: its packet does not depend on the encoder's counter)
        if not any(w in later for w in want):
            out.append(("send_after_recovery_lost", {"fault": fault_kind}, f"a send() issued after the client had reconnected wrote {[x.hex()[:20] for x in later]}, "
                        f"expected {[x.hex()[:20] for x in want]} (tasks left: {o.tasks_left})"))
    return out


def _task_c(args):
    kind, name = args
    vios, runs, outcomes, nontriv = [], 0, set(), 0
    sample = None
    n = len(expected_packets(kind, [name])[0])
    for i in range(n):
      for err in WRITE_ERRORS:
        sess, o = run_c1(kind, name, i, err)
        runs += 1
        nontriv += 1
        outcomes.add(tuple(x for _, x in o.status))
        for k, f, d in judge_c(sess, o, "write_error"):
            vios.append({"kind": k, "facts": dict(f, client=kind, part="C", error=err), "signature": f"C:{k}:{kind}:{name}:{err}",
                         "detail": f"[{kind} send={name} write #{i} fails with {err}] {d}",
                         "case": {"part": "C1", "client": kind, "name": name, "fail_at": i, "err": err}})
        sample = {"part": "C", "client": kind, "send": name, "fail_at": i, "error": err, "status": o.status}
    # reset at every boundary of a fully back-pressured send
    skip = CONFIG_WRITES.get(kind, 0)
    pk = clientkit.std(kind)

    def make(devs):
        def setup(gw):
            gw.pause_policy = lambda idx: idx >= skip
        return dict(kind=kind, script=[it_connect, it_send(MSGS[name])], setup=setup, specials={"reset": sp_reset},
                    deviations=devs, heal=steady_state(pk["PROBE"]))

    def on_exec(devs, sess, o):
        if not devs:
            return
        outcomes.add(tuple(x for _, x in o.status))
        for k, f, d in judge_c(sess, o, "reset_during_send"):
            vios.append({"kind": k, "facts": dict(f, client=kind, part="C"), "signature": f"C2:{k}:{kind}:{name}",
                         "detail": f"[{kind} send={name} back-pressured, reset at {devs}] {d}",
                         "case": {"part": "C2", "client": kind, "name": name, "deviations": [list(d) for d in devs]}})
    cnt = vloop.explore_placements(make, ["reset"], 1, on_exec)
    return {"runs": runs + cnt["runs"], "outcomes": len(outcomes), "nontrivial": nontriv + cnt["runs"] - cnt["redundant"], "vios": vios, "sample": sample}


# ------------------------------------------------------------------ part D
def pgn_of(kind, packet):
    try:
        if kind == "ebyte":
            ident = int.from_bytes(packet[1:5], "big")
        elif kind == "waveshare":
            ident = int.from_bytes(packet[5:9], "little")
        else:
            ident = int(packet.decode().split()[0], 16)
        return wire.parse_id(ident)[1]
    except Exception:  # noqa: BLE001
        return None


def _task_d(args):
    """a multi-frame send() suspended by flow control, the gateway half-closing the link (EOF on the read side) and a second
    send() at every pair of loop boundaries: on each connection the packets of one message stay together"""
    kind, first, second, k = args[:4]
    away = len(args) > 4 and args[4]          # the gateway refuses two attempts after the first connection
    skip = CONFIG_WRITES.get(kind, 0)
    pk = clientkit.std(kind)
    vios, outcomes = [], set()
    stats = {"judged": 0}

    def sp_cancel_first(sess):
        # the application gives up on its send() (wait_for timed out, task cancelled)
        for t in sess.harness_tasks:
            if t.get_name() == "harness:send-first" and not t.done():
                t.cancel()
                return True
        return False

    def make(devs):
        def setup(gw):
            gw.pause_policy = lambda idx: idx >= skip
        # the gateway is away for two attempts after the first connection: a reconnection spends time in its back-off
        return dict(kind=kind, script=[it_connect, it_send(MSGS[first], name="send-first")], setup=setup,
                    specials={"eof": vloop.sp_eof, "reset": sp_reset, "second": vloop.sp_send(MSGS[second]), "cancel_first": sp_cancel_first},
                    deviations=devs, heal=steady_state(pk["PROBE"]), connect_plan=("accept", "refuse", "refuse", "accept") if away else ("accept",))

    def on_exec(devs, sess, o):
        if not devs:
            return
        stats["judged"] += 1
        bad = sorted(x for x in ("livelock", "watchdog", "busy_loop") if o.flags.get(x))
        if bad or o.end_reason != "quiescent":
            vios.append({"kind": "hang", "facts": {"client": kind, "part": "D"}, "signature": f"D:hang:{kind}",
                         "detail": f"[{kind} {first} then {second}, devs={devs}] execution ended with {o.end_reason} {o.flags}",
                         "case": {"part": "D", "client": kind, "first": first, "second": second, "away": bool(away), "deviations": [list(d) for d in devs]}})
            return
        if (o.states[-1] if o.states else None) != "CONNECTED":
            vios.append({"kind": "not_reconnected", "facts": {"client": kind, "part": "D", "fault": "during_suspended_send"},
                         "signature": f"D:not_reconnected:{kind}:{[d[1] for d in devs]}",
                         "detail": f"[{kind} send({first}) suspended by flow control, devs={devs}] final state {o.states[-1] if o.states else None}; status {[x for _, x in o.status]}; "
                                   f"attempts {[(round(a.t, 2), a.outcome) for a in sess.gw.attempts]}",
                         "case": {"part": "D", "client": kind, "first": first, "second": second, "away": bool(away), "deviations": [list(d) for d in devs]}})
        # a message whose first packet is written after a newer connection has been reported CONNECTED goes to that connection
        # (the packets of a message that was cut in two by the reconnection may continue on the new link)
        accepted, current, started = None, None, set()
        for ev in sess.gw.log:
            if ev[0] == "accepted":
                accepted = ev[1]
            elif ev[0] == "status" and ev[1] == "CONNECTED":
                current = accepted
            elif ev[0] == "write":
                pg = pgn_of(kind, bytes.fromhex(ev[2]))
                if pg in (PGN_OF[first], PGN_OF[second]) and pg not in started:
                    started.add(pg)
                    if current is not None and ev[1] < current:
                        vios.append({"kind": "written_to_stale_link", "facts": {"client": kind, "part": "D", "mechanism": "stale_writer"},
                                     "signature": f"D:stale:{kind}:{first}:{second}",
                                     "detail": f"[{kind} send({first}) suspended by flow control, devs={devs}] the first packet of PGN {pg} was written to connection {ev[1]} "
                                               f"although connection {current} had been reported CONNECTED",
                                     "case": {"part": "D", "client": kind, "first": first, "second": second, "away": bool(away), "deviations": [list(d) for d in devs]}})
        for c in sess.gw.conns:
            owners = [pgn_of(kind, w) for w in c.written]
            owners = [x for x in owners if x in (PGN_OF[first], PGN_OF[second])]
            runs = [x for i, x in enumerate(owners) if i == 0 or owners[i - 1] != x]
            outcomes.add((c.cid, tuple(runs)))
            if len(runs) > len(set(runs)):
                vios.append({"kind": "interleaved", "facts": {"client": kind, "part": "D", "n_messages": 2, "mechanism": "fault_during_suspended_send"},
                             "signature": f"D:interleaved:{kind}:{first}:{second}",
                             "detail": f"[{kind} send({first}) suspended by flow control, devs={devs}] on connection {c.cid} the packets alternate between the two messages: "
                                       f"PGN runs {runs}",
                             "case": {"part": "D", "client": kind, "first": first, "second": second, "away": bool(away), "deviations": [list(d) for d in devs]}})
    cnt = vloop.explore_placements(make, ["eof", "reset", "second", "cancel_first"], k, on_exec)
    return {"runs": cnt["runs"], "outcomes": len(outcomes), "nontrivial": stats["judged"], "vios": vios[:30], "sample": None}


PGN_OF = {"iso": 59904, "hdg": 127250, "gnss": 129029, "fast2": 130578}


# ------------------------------------------------------------------ driver
def plan(ctx):
    ta, tb, tc = [], [], []
    names = list(MSGS)
    for kind in SEND_KINDS:
        for pair in itertools.permutations(names, 2):
            for mode in ("together", "staggered"):
                ta.append((kind, pair, mode, None))
        triples = list(itertools.permutations(names, 3))
        for tr in triples:
            ta.append((kind, tr, "together", None if (ctx.thorough or "gnss" not in tr) else 2))
            if ctx.thorough:
                ta.append((kind, tr, "staggered", None))
        # an unencodable message started before, between or after two good ones
        for bad in BAD:
            for g1, g2 in itertools.permutations(names, 2):
                if not ctx.thorough and (bad == "bad_missing" or "gnss" in (g1, g2)) and not (g1, g2) == ("gnss", "fast2"):
                    continue
                for pos in range(3):
                    tr = [g1, g2]
                    tr.insert(pos, bad)
                    for mode in ("together", "staggered"):
                        ta.append((kind, tuple(tr), mode, None if (ctx.thorough or "gnss" not in tr) else 3))
    for kind in vloop.KINDS:
        bads = ["missing_field", "out_of_range", "unknown_pgn"] + (["good_on_actisense"] if kind == "actisense" else [])
        for b in bads:
            tb.append((kind, b))
            tb.append((kind, b, True))
    for kind in SEND_KINDS:
        for name in ("gnss", "hdg", "fast2", "iso"):
            tc.append((kind, name))
    return ta, tb, tc


def _dispatch(t):
    part, args = t
    return {"A": _task_a, "B": _task_b, "C": _task_c, "D": _task_d}[part](args)


def run(ctx):
    ta, tb, tc = plan(ctx)
    td = []
    for kind in SEND_KINDS:
        td.append((kind, "gnss", "fast2", 2))
        td.append((kind, "fast2", "gnss", 2))
        td.append((kind, "fast2", "gnss", 2, True))
        if ctx.thorough:
            td.append((kind, "gnss", "fast2", 3))
    tasks = [("A", t) for t in ta] + [("B", t) for t in tb] + [("C", t) for t in tc] + [("D", t) for t in td]
    tasks.sort(key=lambda t: -(n_writes(t[1][0], t[1][1]) if t[0] == "A" else (50 if t[0] == "D" else 3)))
    results = common.pmap(_dispatch, tasks)
    vios, samples = [], []
    runs = nontriv = outcomes = 0
    parts = {"A": 0, "B": 0, "C": 0, "D": 0}
    for t, r in zip(tasks, results):
        vios += r["vios"]
        runs += r["runs"]
        nontriv += r["nontrivial"]
        outcomes += r["outcomes"]
        parts[t[0]] += r["runs"]
        if r.get("sample") and len([s for s in samples if s["part"] == t[0][0]]) < 2:
            samples.append(r["sample"])
    cov = {
        "states": runs, "transitions": runs, "traces_validated_against_impl": runs, "evaluations": runs,
        "distinct_nontrivial": nontriv, "distinct_outcomes": outcomes,
        "rule": "A: one execution per (client, ordered set of 2-3 concurrent sends incl. triples with one unencodable message, start mode, subset of writes at which the transport "
                "applies back-pressure); B: an unencodable message sent at every loop boundary of a session; C: a failing write at each "
                "packet index and a reset at every boundary of a back-pressured send; D: a back-pressured multi-frame send with EOF / reset / a second send at every pair of boundaries. Non-trivial = at least one write suspended (A), "
                "send landing while a writer exists (B), all (C)",
        "samples": samples, "executions_per_part": parts,
        "bound_completed": ("all 2^W back-pressure patterns for every ordered pair and triple (W<=10)" if ctx.thorough else
                            "all 2^W patterns for every ordered pair (both start modes) and every triple without the 7-frame message; <=2 suspended writes for triples containing it"),
        "exhaustive": True,
    }
    return {"coverage": cov, "violations": vios,
            "assumptions": ["a paused transport resumes the writer when nothing else can run (maximal overlap between senders)",
                            "expected packets come from a fresh library encoder applied in task start order (the encoder itself is C03/C06's subject)"]}


def replay(ctx, rep):
    c = rep["case"]
    kind = c["client"]
    if c["part"] == "A":
        sess, o = run_a(kind, tuple(c["names"]), c["mode"], c["mask"])
        res = judge_a(kind, tuple(c["names"]), sess, o)
    elif c["part"] == "B":
        make = make_b(kind, c["bad"], c.get("idle", False))
        sb, ob = vloop.run_session(**make([]))
        s, o = vloop.run_session(**make([tuple(d) for d in c["deviations"]]))
        vb, v = view_b(sb, ob), view_b(s, o)
        diff = [k for k in v if v[k] != vb[k]]
        res = [("bad_message_disturbs", {"bad": c["bad"], "changed": diff}, f"differs in {diff}")] if diff else []
    elif c["part"] == "D":
        r = _task_d((kind, c["first"], c["second"], len(c["deviations"]), c.get("away", False)))
        return [v for v in r["vios"] if v["case"]["deviations"] == c["deviations"]][:1] or r["vios"][:1]
    elif c["part"] == "C1":
        sess, o = run_c1(kind, c["name"], c["fail_at"], c.get("err", "pipe"))
        res = judge_c(sess, o, "write_error")
    else:
        raise vloop.HarnessError("C2 cases are replayed through the quick check")
    return [{"kind": k, "facts": dict(f, client=kind), "detail": d, "case": c} for k, f, d in res]
