"""C09 - encoding never silently corrupts a value.

For every encodable definition: base message = decode of the 'mid' payload; one field at a
time (thorough: two) takes every value of its value alphabet (range ends, one step beyond,
far out of range, negative for unsigned, between two steps, absent; lookups by name / by
raw / undefined / too wide; dates, times, reserved bits), and each field is removed once.
Oracle: ValueError, or a payload that decodes back to the requested values and differs from
the base payload only inside the changed field's bits."""
from __future__ import annotations

import copy
import datetime as dt
import itertools
from fractions import Fraction

from .. import common, payloads, refdb, wire
from nmea2000.decoder import NMEA2000Decoder
from nmea2000.encoder import NMEA2000Encoder

ID = "C09"


def decode(dec, pgn, data):
    return dec.decode_basic_string(wire.plain_line(3, pgn, 7, 255, data), already_combined=True)


def payload_of(actisense_text):
    parts = actisense_text.split()
    return bytes.fromhex(parts[2]) if len(parts) > 2 else b""     # an all-zero variable-length payload is empty


def value_alphabet(f: refdb.Field, db):
    """list of (label, value, raw_value, expect) ; expect: ('num', Fraction) | ('none',) | ('exact', v) | ('reject',) | ('raw', u)"""
    t = f.type
    b = f.bits
    out = []
    if t in ("NUMBER", "PGN"):
        res, off = f.res, f.off
        lo_raw = -(1 << (b - 1)) if f.signed else 0
        hi_raw = ((1 << (b - 1)) - 2) if f.signed else ((1 << b) - 2)
        if b <= 3 and not f.signed:
            hi_raw = (1 << b) - 2
        rr = f.raw_range()

        def num(label, raw_val, frac_step=Fraction(0)):
            v = (Fraction(raw_val) + frac_step) * res + off
            fv = float(v) if (res.denominator != 1 or off.denominator != 1 or frac_step) else int(v)
            return (label, fv, fv, ("num", Fraction(fv)))
        out.append(num("rep_min", lo_raw))
        out.append(num("rep_max", hi_raw))
        if rr:
            out.append(num("db_min", rr[0]))
            out.append(num("db_max", rr[1]))
            mid = (rr[0] + rr[1]) // 2
            out.append(num("mid+0.3step", mid, Fraction(3, 10)))
            out.append(num("mid+0.5step", mid, Fraction(1, 2)))
            out.append(num("mid-0.3step", mid, Fraction(-3, 10)))
            if res.denominator == 1 and res > 1 and off.denominator == 1:
                # integer resolution > 1: between-step values given as Python ints (not floats)
                for label, frac_ in (("int_mid+0.3step", Fraction(3, 10)), ("int_mid+0.7step", Fraction(7, 10)), ("int_mid+0.99step", Fraction(99, 100))):
                    iv = int((Fraction(mid) + frac_) * res + off)
                    if iv % int(res) and rr[0] * res + off <= iv <= rr[1] * res + off:
                        out.append((label, iv, iv, ("num", Fraction(iv))))
        # one step beyond the representable interval, and far beyond
        near = (("below_rep", lo_raw - 1), ("not_available_code", hi_raw + 1), ("above_rep", hi_raw + 2)) if b <= 48 else ()   # one raw step is below float resolution for wider fields
        for label, rv in near + (("far_above", (hi_raw + 1) * 1000 + 7), ("far_below", -(abs(lo_raw) + 1) * 1000 - 7)):
            v = Fraction(rv) * res + off
            fv = float(v) if (res.denominator != 1 or off.denominator != 1) else int(v)
            out.append((label, fv, fv, ("reject",)))
        if off != 0 and rr:
            # fields with an offset: values a wrong order of scaling and offsetting would map into the representable interval
            mid = (rr[0] + rr[1]) // 2
            for label, v in (("offset_forgotten", Fraction(mid) * res), ("offset_in_steps", (Fraction(mid) + off) * res),
                             ("offset_twice", Fraction(mid) * res + 2 * off), ("half_offset", off / 2), ("zero", Fraction(0)),
                             ("offset_negated", Fraction(mid) * res - off), ("step_times_offset", res * off)):
                raw_needed = (v - off) / res
                fv = float(v) if (res.denominator != 1 or off.denominator != 1) else int(v)
                if lo_raw <= raw_needed <= hi_raw:
                    out.append((label, fv, fv, ("num", Fraction(fv))))
                elif raw_needed < lo_raw - 1 or raw_needed > hi_raw + 2:
                    out.append((label, fv, fv, ("reject",)))
        if not f.signed:
            v = Fraction(-1) * res + off
            fv = float(v) if (res.denominator != 1 or off.denominator != 1) else int(v)
            out.append(("negative_unsigned", fv, fv, ("reject",)))
        out.append(("absent", None, None, ("none",)))
    elif t == "LOOKUP":
        table = db.lookups.get(f.lookup, {})
        codes = sorted(table)
        pick = codes if len(codes) <= 12 else codes[:6] + codes[-4:]
        names_count = {}
        for c in codes:
            names_count[table[c]] = names_count.get(table[c], 0) + 1
        for c in pick:
            if c >= (1 << b):
                continue
            out.append((f"name:{c}", table[c], None, ("lookup", c) if names_count[table[c]] == 1 else ("lookup_any", table[c])))
            out.append((f"raw:{c}", None, c, ("raw", c)))
            out.append((f"both:{c}", table[c], c, ("raw", c)))
        # every entry of the table by its name alone (the encode map is a table of its own: one wrong entry is enough)
        for c in codes:
            if c not in pick and c < (1 << b):
                out.append((f"name:{c}", table[c], None, ("lookup", c) if names_count[table[c]] == 1 else ("lookup_any", table[c])))
        out.append(("undefined_name", "no such entry !", None, ("reject",)))
        out.append(("raw_too_wide", None, 1 << b, ("reject",)))
        out.append(("raw_negative", None, -1, ("reject",)))
    elif t == "RESERVED":
        out.append(("zero", 0, 0, ("raw", 0)))
        out.append(("ones", (1 << b) - 1, (1 << b) - 1, ("raw", (1 << b) - 1)))
        out.append(("too_wide", 1 << b, 1 << b, ("reject",)))
    elif t == "DATE":
        d0 = dt.date(1970, 1, 1)
        out.append(("epoch_value", d0, None, ("exact", d0)))
        d1 = dt.date(2024, 2, 29)
        out.append(("date_value", d1, None, ("exact", d1)))
        out.append(("date_raw", d1, (d1 - d0).days, ("exact", d1)))
        out.append(("absent", None, None, ("none",)))
        out.append(("raw_too_wide", None, 1 << b, ("reject",)))
    elif t == "TIME":
        tv = dt.time(19, 29, 52)
        secs = 19 * 3600 + 29 * 60 + 52
        out.append(("time_value", tv, None, ("exact", tv)))
        out.append(("time_raw", tv, float(secs), ("exact", tv)))
        out.append(("midnight", dt.time(0, 0, 0), None, ("exact", dt.time(0, 0, 0))))
        out.append(("absent", None, None, ("none",)))
    elif t == "DURATION":
        rr = f.raw_range()
        if rr:
            for label, rv in (("db_min", rr[0]), ("db_max", rr[1]), ("mid", (rr[0] + rr[1]) // 2)):
                v = Fraction(rv) * f.res
                fv = float(v)
                out.append((label, fv, fv, ("num", Fraction(fv))))
        out.append(("absent", None, None, ("none",)))
        top = Fraction((1 << b) + 5) * f.res
        out.append(("raw_too_wide", float(top), float(top), ("reject",)))
    elif t == "FLOAT":
        out.append(("one_and_half", 1.5, 1.5, ("exact", 1.5)))
        out.append(("zero", 0.0, 0.0, ("exact", 0.0)))
    return out


def check_back(f, expect, got_field, db):
    """did the produced payload decode back to what was requested?"""
    kind = expect[0]
    gv, gr = got_field.value, got_field.raw_value
    if kind == "num":
        want = expect[1]
        if not isinstance(gv, (int, float)) or isinstance(gv, bool):
            return f"requested {float(want)!r}, decoded back {gv!r}"
        if abs(Fraction(gv) - want) > f.res / 2 + abs(f.res) * Fraction(1, 1000):
            return f"requested {float(want)!r}, decoded back {gv!r} (more than half a step of {float(f.res)})"
        return None
    if kind == "none":
        return None if gv is None else f"requested absent, decoded back {gv!r}"
    if kind == "exact":
        return None if gv == expect[1] else f"requested {expect[1]!r}, decoded back {gv!r}"
    if kind == "raw":
        return None if gr == expect[1] else f"requested raw {expect[1]}, decoded back raw {gr!r}"
    if kind == "lookup":
        return None if gr == expect[1] else f"requested lookup code {expect[1]}, decoded back raw {gr!r} ({gv!r})"
    if kind == "lookup_any":
        return None if gv == expect[1] else f"requested {expect[1]!r}, decoded back {gv!r}"
    return None


def _task(args):
    idxs, k = args
    db = refdb.db()
    dec, enc = NMEA2000Decoder(), NMEA2000Encoder()
    vios = []
    st = {"cases": 0, "encoded": 0, "rejected": 0, "nontrivial": 0, "defs": 0, "skipped_defs": 0}
    sample = None
    def exercise(defn, enc, k, tag=""):
        nonlocal sample
        base_assign = payloads.base_assignment(defn, "mid")
        p, n = payloads.build(defn, base_assign)
        try:
            base_msg = decode(dec, defn.pgn, p.to_bytes(n, "little"))
        except Exception:  # noqa: BLE001
            base_msg = None
        if base_msg is None or base_msg.id != defn.id:
            st["skipped_defs"] += 1
            return
        try:
            base_q = payload_of(enc.encode_actisense(base_msg))
            base_int = int.from_bytes(base_q, "little")
        except Exception:  # noqa: BLE001
            # the decoded base does not encode (C02's subject); what a changed field may be accepted as is still judged
            base_q = base_int = None
            st["base_not_encodable"] = st.get("base_not_encodable", 0) + 1
        st["defs"] += 1
        # match fields select the definition: giving them another value asks for a different definition, not for another value
        alph = [value_alphabet(f, db) if f.match is None else [] for f in defn.fields]
        per_def = 0

        def emit(kind, facts, detail, case):
            nonlocal per_def
            per_def += 1
            if per_def <= 30:
                vios.append({"kind": kind, "facts": dict(facts, definition=defn.id),
                             "signature": f"{kind}:{defn.pgn}:{defn.id}:{facts.get('field')}:{facts.get('label_class')}",
                             "detail": f"[PGN {defn.pgn} {defn.id}{tag}] {detail}", "case": dict(case, pgn=defn.pgn, definition=defn.id)})

        # each field removed
        for i, f in enumerate(defn.fields):
            m = copy.deepcopy(base_msg)
            del m.fields[i]
            st["cases"] += 1
            try:
                enc.encode_actisense(m)
                emit("missing_field_accepted", {"field": f.id}, f"field {f.id} removed, encoder produced a payload", {"remove": i})
            except ValueError:
                st["rejected"] += 1
            except Exception as ex:  # noqa: BLE001
                emit("wrong_error_type", {"field": f.id, "error": type(ex).__name__}, f"field {f.id} removed: {type(ex).__name__} instead of ValueError", {"remove": i})
        combos = [(i,) for i in range(len(defn.fields))]
        if k >= 2:
            combos += list(itertools.combinations(range(len(defn.fields)), 2))
        if k >= 3:
            combos += list(itertools.combinations(range(len(defn.fields)), 3))
        for combo in combos:
            pools = [alph[i] for i in combo]
            if any(not pl for pl in pools):
                continue
            if len(combo) == 2:
                pools = [[a for a in pl if a[3][0] != "reject"][:4] + [a for a in pl if a[3][0] == "reject"][:1] for pl in pools]
            if len(combo) == 3:
                pools = [[a for a in pl if a[3][0] != "reject"][:2] + [a for a in pl if a[3][0] == "reject"][:1] for pl in pools]
            for choice in itertools.product(*pools):
                m = copy.deepcopy(base_msg)
                for i, (label, v, rv, exp) in zip(combo, choice):
                    m.fields[i].value = v
                    m.fields[i].raw_value = rv
                st["cases"] += 1
                st["nontrivial"] += 1
                case = {"set": [[i, lab, common.val_view(v), common.val_view(rv)] for i, (lab, v, rv, e) in zip(combo, choice)]}
                must_reject = [defn.fields[i] for i, c in zip(combo, choice) if c[3][0] == "reject"]
                try:
                    q = payload_of(enc.encode_actisense(m))
                except ValueError:
                    st["rejected"] += 1
                    continue
                except Exception as ex:  # noqa: BLE001
                    emit("wrong_error_type", {"field": defn.fields[combo[0]].id, "error": type(ex).__name__, "label_class": choice[0][0].split(":")[0]},
                         f"{case['set']}: {type(ex).__name__}: {ex} instead of ValueError", case)
                    continue
                st["encoded"] += 1
                if must_reject:
                    f = must_reject[0]
                    lab = next(c[0] for i, c in zip(combo, choice) if c[3][0] == "reject")
                    emit("unrepresentable_value_accepted", {"field": f.id, "type": f.type, "label_class": lab.split(":")[0],
                                                            "mechanism": "number_wrapped_or_clipped" if f.type in ("NUMBER", "PGN") else "raw_masked_silently"},
                         f"{case['set']}: value cannot be represented in {f.bits} bits{' signed' if f.signed else ''} but a payload was produced: {q.hex()}", case)
                    continue
                qi = int.from_bytes(q, "little")
                allowed = 0
                for i in combo:
                    allowed |= ((1 << defn.fields[i].bits) - 1) << defn.fields[i].offset
                if base_int is not None and (qi ^ base_int) & ~allowed:
                    emit("other_bits_changed", {"field": defn.fields[combo[0]].id, "label_class": choice[0][0].split(":")[0]},
                         f"{case['set']}: payload {q.hex()} differs from base {base_q.hex()} outside the changed field(s)", case)
                    continue
                berr = None
                try:
                    back = decode(dec, defn.pgn, q)
                except Exception as ex:  # noqa: BLE001
                    back = None
                    berr = f"{type(ex).__name__}: {ex}"
                if back is not None and back.id != defn.id and back.id in db.select(defn.pgn, qi):
                    # the requested values happen to be the match values of a sibling definition that comes
                    # first in database order: the payload rightly decodes as that sibling (C08's subject)
                    st["reselected"] = st.get("reselected", 0) + 1
                    continue
                if back is None or back.id != defn.id:
                    f = defn.fields[combo[0]]
                    lab = choice[0][0]
                    in_db = True
                    for ii, cc in zip(combo, choice):
                        if cc[3][0] == "num":
                            ff, v = defn.fields[ii], cc[3][1]
                            if not ((ff.rmin is None or v >= ff.rmin) and (ff.rmax is None or v <= ff.rmax)):
                                in_db, f, lab = False, ff, cc[0]
                    emit("payload_not_decodable", {"field": f.id, "type": f.type, "label_class": lab.split(":")[0],
                                                   "mechanism": "encoder_ignores_database_range" if not in_db else "other"},
                         f"{case['set']}: produced payload {q.hex()} does not decode back ({berr or 'returned None' if back is None else back.id})", case)
                    continue
                for i, c in zip(combo, choice):
                    why = check_back(defn.fields[i], c[3], back.fields[i], db)
                    if why:
                        emit("value_corrupted", {"field": defn.fields[i].id, "type": defn.fields[i].type, "label_class": c[0].split(":")[0]},
                             f"{case['set']}: {why}; payload {q.hex()}", case)
                if sample is None:
                    sample = {"pgn": defn.pgn, "definition": defn.id, "set": case["set"], "payload_hex": q.hex()}

    for di in idxs:
        exercise(db.defs[di], enc, k)
    # history independence: the definitions that share a PGN, one after the other on ONE encoder, in database
    # order and in reverse (what an encoder produces for a message must not depend on what it encoded before)
    by_pgn = {}
    for di in idxs:
        by_pgn.setdefault(db.defs[di].pgn, []).append(db.defs[di])
    for pgn, ds in by_pgn.items():
        if len(ds) < 2:
            continue
        for order, label in ((ds, "forward"), (ds[::-1], "backward")):
            shared = NMEA2000Encoder()
            for d in order:
                exercise(d, shared, 1, f", {label} pass over the PGN's definitions on one encoder")
    return st, vios, sample


def _task_env(args):
    """the same cases for the definitions with date / time fields under process time zones east and west of Greenwich"""
    import os
    import time as _time
    idxs, = args
    old_tz = os.environ.get("TZ")
    tot, vios_all = None, []
    try:
        for tz in ("JST-9", "PST8", "NZST-12"):
            os.environ["TZ"] = tz
            _time.tzset()
            st, vios, _ = _task((idxs, 1))
            for v in vios:
                v["detail"] = v["detail"].replace("] ", f", process time zone {tz}] ", 1)
                v["facts"] = dict(v.get("facts", {}), tz=tz)           # the mechanism stays: a listed finding is the same finding in any time zone
                v["signature"] = "env:" + v.get("signature", "")
                v["case"] = dict(v.get("case", {}), tz=tz)
            vios_all += vios
            if tot is None:
                tot = dict(st)
            else:
                for k in st:
                    if isinstance(st[k], int):
                        tot[k] = tot.get(k, 0) + st[k]
    finally:
        if old_tz is None:
            os.environ.pop("TZ", None)
        else:
            os.environ["TZ"] = old_tz
        _time.tzset()
    return tot, vios_all, None


def _dispatch(t):
    return _task_env(t[1]) if t[0] == "env" else _task(t[1])


def run(ctx):
    db = refdb.db()
    enc_defs = [d.idx for d in db.defs if d.encodable]
    k = 3 if ctx.thorough else 2
    groups = {}
    for i in enc_defs:
        groups.setdefault(db.defs[i].pgn, []).append(i)     # definitions sharing a PGN stay together (history pass)
    nb = 131 if ctx.thorough else 48
    buckets = [[] for _ in range(nb)]
    weight = [0] * nb
    for g in sorted(groups.values(), key=lambda g: -sum(len(db.defs[i].fields) ** 2 for i in g)):
        if len(g) > 12:
            # a PGN with dozens of definitions: split into runs of 12 so that no worker carries them all
            parts = [g[j:j + 12] for j in range(0, len(g), 12)]
        else:
            parts = [g]
        for part in parts:
            j = weight.index(min(weight))
            buckets[j] += part
            weight[j] += sum(len(db.defs[i].fields) ** 2 for i in part)
    timed = [i for i in enc_defs if any(f.type in ("DATE", "TIME") for f in db.defs[i].fields)]
    results = common.pmap(_dispatch, [("main", (b, k)) for b in buckets if b] + [("env", (timed,))])
    vios, samples = [], []
    tot = {"cases": 0, "encoded": 0, "rejected": 0, "nontrivial": 0, "defs": 0, "skipped_defs": 0, "base_not_encodable": 0}
    for st, v, s in results:
        vios += v
        for key in tot:
            tot[key] += st.get(key, 0)
        if s and len(samples) < 4:
            samples.append(s)
    cov = {
        "states": tot["cases"], "transitions": tot["cases"], "traces_validated_against_impl": tot["cases"],
        "evaluations": tot["cases"], "distinct_nontrivial": tot["nontrivial"], "distinct_outcomes": 2 + len({v["kind"] for v in vios}),
        "rule": "one case per (definition, <=k fields, value from the field's value alphabet) plus one per removed field; "
                "non-trivial = a value assignment (not a removal)",
        "samples": samples, "encodable_definitions_exercised": tot["defs"], "definitions_skipped_no_base": tot["skipped_defs"], "definitions_whose_base_does_not_encode": tot["base_not_encodable"],
        "payloads_produced": tot["encoded"], "rejected_with_ValueError": tot["rejected"],
        "bound_completed": f"k={k} fields at a time over the value alphabet; every field removed once; k=1 again for the definitions sharing a PGN on one encoder, forward and backward; definitions with date / time fields again under 3 process time zones", "exhaustive": True,
    }
    return {"coverage": cov, "violations": vios,
            "assumptions": ["a value is requested by setting value and raw_value as the decoder would report them",
                            "representable interval = two's complement / unsigned range of the field width with the top code reserved"]}


def replay(ctx, rep):
    c = rep["case"]
    db = refdb.db()
    defn = db.by_id[(c["pgn"], c["definition"])]
    if c.get("tz"):
        st, vios, _ = _task_env(([defn.idx],))
        vios = [v for v in vios if v["case"].get("tz") == c["tz"]]
    else:
        st, vios, _ = _task(([defn.idx], max(1, len(c.get("set", [])))))
    want = json_key(c)
    return [v for v in vios if json_key(v["case"]) == want] or [v for v in vios if v["kind"] == rep.get("kind")][:1]


def json_key(c):
    import json
    return json.dumps({k: c.get(k) for k in ("set", "remove")}, sort_keys=True, default=repr)
