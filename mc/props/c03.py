"""C03 - fast-packet segmentation and reassembly are inverse for every payload length.

(a) all 224 lengths x all 8 sequence-counter states x byte patterns through encode_ebyte /
encode_usb / encode_yacht_devices (arbitrary payloads are injected by stubbing the per-definition
encode function on the encoder *instance*: the narrowest seam above the segmentation code), each
frame list checked by an independent segmentation oracle and fed frame by frame to the real decoder;
(b) all ordered pairs (thorough: triples) of boundary lengths on one encoder/decoder pair, and a
chain of 17 messages (counter wrap-around twice);
(c) every encodable fast-packet definition through the fully public path."""
from __future__ import annotations

import itertools

from .. import common, payloads, refdb, wire
from nmea2000.decoder import NMEA2000Decoder
from nmea2000.encoder import NMEA2000Encoder
from nmea2000.message import NMEA2000Message

ID = "C03"
CARRIERS = {126720: ("0x1ef00ManufacturerProprietaryFastPacketAddressed", 9), 130816: ("0x1ff000x1ffffManufacturerSpecificFastPacketNonAddressed", 255)}
FORMATS = ("ebyte", "usb", "yd")


def pattern(kind, L, seed=0):
    if kind == "zeros":
        return bytes(L)
    if kind == "ones":
        return b"\xff" * L
    if kind == "asc":
        b = bytearray(((i * 7 + 11) % 253) + 1 for i in range(L))
    else:
        v = common.seeded_values(seed, 1, 8 * max(L, 1), f"c03:{L}")[0]
        b = bytearray(v.to_bytes(max(L, 1), "big")[:L])
    if L > 0:
        b[0] = 0x01
    if L > 1:
        b[1] = 0x00
    return bytes(b)


def frames_of(fmt, packets):
    """-> list of (identifier, data bytes) parsed from the encoder's packets by format rules"""
    out = []
    for p in packets:
        if fmt == "ebyte":
            n = p[0] & 0x0F
            out.append((int.from_bytes(p[1:5], "big"), bytes(p[5:5 + n]), len(p)))
        elif fmt == "usb":
            n = p[9]
            out.append((int.from_bytes(p[5:9], "little"), bytes(p[10:10 + n]), len(p)))
        else:
            parts = p.decode().split()
            out.append((int(parts[0], 16), bytes(int(x, 16) for x in parts[1:]), len(p)))
    return out


def encode(enc, fmt, msg):
    return {"ebyte": enc.encode_ebyte, "usb": enc.encode_usb, "yd": enc.encode_yacht_devices}[fmt](msg)


def feed(dec, fmt, packet):
    if fmt == "ebyte":
        return dec.decode_tcp(packet)
    if fmt == "usb":
        return dec.decode_usb(packet)
    return dec.decode_yacht_devices_string("00:00:00.000 R " + packet.decode().strip())


def observed_int(msg):
    f = {x.id: x for x in msg.fields}
    return (f["manufacturerCode"].raw_value | (f["reserved_11"].raw_value << 11) | (f["industryCode"].raw_value << 13)
            | (int.from_bytes(f["data"].value, "big") << 16))


def check_message(enc, dec, fmt, pgn, payload, prev_seq, ctxlabel):
    return check_message_on(enc, dec, fmt, pgn, CARRIERS[pgn][1], payload, prev_seq, ctxlabel)


def check_message_on(enc, dec, fmt, pgn, dst, payload, prev_seq, ctxlabel):
    """encode one arbitrary payload, check framing, feed to decoder. -> (violations, seq)"""
    cid = CARRIERS[pgn][0]
    msg = NMEA2000Message(PGN=pgn, id=cid, priority=3, source=5, destination=dst)
    enc._call_encode_function = lambda m, _p=payload: _p
    out = []
    try:
        packets = encode(enc, fmt, msg)
    except Exception as ex:  # noqa: BLE001
        return [("encode_failed", {}, f"{ctxlabel}: {type(ex).__name__}: {ex}")], prev_seq
    fr = frames_of(fmt, packets)
    L = len(payload)
    n_exp = wire.n_frames(L)
    want_id = wire.can_id(3, pgn, 5, dst)
    seq = None
    if len(fr) != n_exp:
        out.append(("frame_count", {"length": L}, f"{ctxlabel}: {len(fr)} frames for {L} bytes, expected {n_exp}"))
    data = b""
    for i, (ident, d, plen) in enumerate(fr):
        if ident != want_id:
            out.append(("frame_identifier", {"length": L}, f"{ctxlabel}: frame {i} identifier {ident:#x} != {want_id:#x}"))
        if not 1 <= len(d) <= 8:
            out.append(("frame_size", {"length": L}, f"{ctxlabel}: frame {i} carries {len(d)} data bytes"))
            break
        s, c = d[0] >> 5, d[0] & 0x1F
        if seq is None:
            seq = s
        if s != seq or c != i:
            out.append(("frame_counter", {"length": L}, f"{ctxlabel}: frame {i} has sequence {s} counter {c} (message sequence {seq})"))
        if i == 0:
            if len(d) < 2 or d[1] != L:
                out.append(("length_byte", {"length": L}, f"{ctxlabel}: frame 0 announces {d[1] if len(d) > 1 else None}, payload has {L}"))
            data += d[2:]
        else:
            data += d[1:]
    # bytes beyond the announced length can only sit in the last frame (padding up to 8 data bytes is the sender's choice)
    if not out and len(data) > L and len(data) - L <= 7 and n_exp == len(fr) and data[:L] == payload:
        data = data[:L]
    if not out and data != payload:
        out.append(("payload_bytes", {"length": L}, f"{ctxlabel}: frames carry {data.hex()[:40]}.. ({len(data)} bytes), payload {payload.hex()[:40]}.. ({L})"))
    if seq is not None and prev_seq is not None and seq == prev_seq:
        out.append(("sequence_not_advanced", {"length": L}, f"{ctxlabel}: sequence counter {seq} equals the previous message's"))
    if out:
        return out, seq
    # receiver side
    want = int.from_bytes(payload, "little")
    for i, p in enumerate(packets):
        try:
            m = feed(dec, fmt, p)
        except Exception as ex:  # noqa: BLE001
            out.append(("decode_failed", {"length": L, "frame": i}, f"{ctxlabel}: frame {i}: {type(ex).__name__}: {ex}"))
            return out, seq
        last = i == len(packets) - 1
        if not last and m is not None:
            out.append(("early_message", {"length": L, "frame": i}, f"{ctxlabel}: a message was returned at frame {i} of {len(packets)}"))
            return out, seq
        if last:
            if m is None:
                out.append(("no_message", {"length": L}, f"{ctxlabel}: nothing returned after the last frame ({len(packets)} frames, {L} bytes)"))
            elif m.PGN != pgn or m.id != cid or (m.source, m.priority) != (5, 3):
                out.append(("wrong_message", {"length": L}, f"{ctxlabel}: returned {m.PGN} {m.id} src {m.source} prio {m.priority}"))
            elif observed_int(m) != want:
                out.append(("payload_mismatch", {"length": L}, f"{ctxlabel}: reassembled {observed_int(m):#x} != {want:#x}"))
    return out, seq


def _task_a(args):
    fmt, lengths, seed = args
    vios, n = [], 0
    sample = None
    seqs_seen = set()
    for L in lengths:
        for k in range(8):
            enc, dec = NMEA2000Encoder(), NMEA2000Decoder()
            prev = None
            for j in range(k):      # bring the counter to state k with k earlier fast messages
                v, prev = check_message(enc, dec, fmt, 130816, pattern("asc", 9), prev, f"{fmt} warm-up {j}")
            for pi, pk in enumerate(("asc", "zeros", "ones", "seeded")):
                pgn = 126720 if (L + pi) % 2 else 130816
                payload = pattern(pk, L, seed)
                v, prev = check_message(enc, dec, fmt, pgn, payload, prev, f"{fmt} L={L} counter-state={k} pattern={pk}")
                n += 1
                seqs_seen.add(prev)
                for kind, facts, detail in v:
                    if len(vios) < 60:
                        vios.append({"kind": kind, "facts": dict(facts, format=fmt), "signature": f"a:{kind}:{fmt}:{L}",
                                     "detail": detail, "case": {"part": "a", "format": fmt, "length": L, "state": k, "pattern": pk, "pgn": pgn, "seed": seed}})
                if sample is None and L > 20:
                    sample = {"part": "a", "format": fmt, "length": L, "counter_state": k, "pattern": pk, "frames": wire.n_frames(L)}
    return n, vios, sample, len(seqs_seen)


def boundary_lengths():
    s = {0, 1, 2, 5, 6, 7, 8, 12, 13, 14, 15, 19, 20, 21, 22, 27, 28, 34, 35, 41, 48, 55, 62, 69, 76, 100, 111, 118, 125, 132, 181, 188, 195,
         202, 209, 215, 216, 217, 221, 222, 223}
    return sorted(s)


def _task_b(args):
    fmt, firsts, depth = args
    bl = boundary_lengths()
    vios, n = [], 0
    for first in firsts:
        for rest in itertools.product(bl, repeat=depth - 1):
            enc, dec = NMEA2000Encoder(), NMEA2000Decoder()
            prev = None
            for idx, L in enumerate((first,) + rest):
                v, prev = check_message(enc, dec, fmt, 130816, pattern("asc", L), prev, f"{fmt} sequence {(first,) + rest} item {idx}")
                n += 1
                for kind, facts, detail in v:
                    if len(vios) < 40:
                        vios.append({"kind": kind, "facts": dict(facts, format=fmt), "signature": f"b:{kind}:{fmt}",
                                     "detail": detail, "case": {"part": "b", "format": fmt, "lengths": [first] + list(rest)}})
                if v:
                    break
    return n, vios, {"part": "b", "format": fmt, "lengths": [firsts[0]] + [bl[-1]] * (depth - 1)}, 0


def _task_chain(args):
    fmt, = args
    enc, dec = NMEA2000Encoder(), NMEA2000Decoder()
    prev, vios, n = None, [], 0
    lens = [223, 0, 6, 7, 13, 14, 1, 222, 20, 21, 100, 5, 8, 50, 216, 217, 9]
    seqs = []
    for idx, L in enumerate(lens):
        v, prev = check_message(enc, dec, fmt, 126720 if idx % 3 else 130816, pattern("seeded", L, idx), prev, f"{fmt} chain item {idx} L={L}")
        seqs.append(prev)
        n += 1
        for kind, facts, detail in v:
            vios.append({"kind": kind, "facts": dict(facts, format=fmt), "signature": f"chain:{kind}:{fmt}", "detail": detail,
                         "case": {"part": "chain", "format": fmt}})
    return n, vios, {"part": "chain", "format": fmt, "sequence_counters": seqs}, 0


STREAMS = {"A": (126720, 9), "B": (130816, 255), "C": (126720, 37)}


def _task_d(args):
    """sequences of messages over several streams sharing ONE encoder counter (so a stream sees the
    same counter again whenever 8, 16, ... fast messages lie between two of its messages)"""
    fmt, prefixes, length = args
    bl = [9, 13, 0, 6, 7, 14, 20, 223, 21, 1]
    names = sorted({c for pre in prefixes for c in pre} | {"A", "B"})
    vios, n = [], 0
    sample = None
    for pre in prefixes:
        for rest in itertools.product("AB", repeat=length - len(pre)):
            seq = tuple(pre) + rest
            enc, dec = NMEA2000Encoder(), NMEA2000Decoder()
            prev = None
            for idx, st in enumerate(seq):
                pgn, dst = STREAMS[st]
                L = bl[(idx * 3 + len(pre)) % len(bl)]
                v, prev = check_message_on(enc, dec, fmt, pgn, dst, pattern("asc" if idx % 2 else "seeded", L, idx), prev,
                                           f"{fmt} streams {''.join(seq)} item {idx} (stream {st}, L={L})")
                n += 1
                for kind, facts, detail in v:
                    if len(vios) < 40:
                        vios.append({"kind": kind, "facts": dict(facts, format=fmt, part="d"), "signature": f"d:{kind}:{fmt}",
                                     "detail": detail, "case": {"part": "d", "format": fmt, "streams": "".join(seq), "offset": len(pre)}})
                if v:
                    break
            if sample is None:
                sample = {"part": "d", "format": fmt, "streams": "".join(seq)}
    return n, vios, sample, 0


def _task_c(args):
    idxs, = args
    db = refdb.db()
    vios, n = [], 0
    sample = None
    for di in idxs:
        defn = db.defs[di]
        for base in ("min", "mid", "max", "ones"):
            p, nb = payloads.build(defn, payloads.base_assignment(defn, base))
            ref = NMEA2000Decoder()
            try:
                m0 = ref.decode_basic_string(wire.plain_line(3, defn.pgn, 5, 255, p.to_bytes(nb, "little")), already_combined=True)
            except Exception:  # noqa: BLE001
                continue
            if m0 is None or m0.id != defn.id:
                continue
            for fmt in FORMATS:
                enc, dec = NMEA2000Encoder(), NMEA2000Decoder()
                try:
                    packets = encode(enc, fmt, m0)
                except Exception:  # noqa: BLE001
                    continue
                n += 1
                got = None
                err = None
                for i, pk in enumerate(packets):
                    try:
                        m = feed(dec, fmt, pk)
                    except Exception as ex:  # noqa: BLE001
                        err = f"frame {i}: {type(ex).__name__}: {ex}"
                        break
                    if m is not None and i != len(packets) - 1:
                        err = f"message returned at frame {i} of {len(packets)}"
                        break
                    got = m
                if err is None:
                    if got is None:
                        err = "nothing returned after the last frame"
                    else:
                        # compare against a decode of what the encoder's payload is (C02 covers payload fidelity)
                        a = [(f.id, common.val_view(f.value)) for f in got.fields]
                        fr = frames_of(fmt, packets)
                        data = fr[0][1][2:] + b"".join(d[1:] for _, d, _ in fr[1:])
                        if len(fr[0][1]) > 1:
                            data = data[:fr[0][1][1]]          # the announced length; what follows in the last frame is padding
                        exp = ref.decode_basic_string(wire.plain_line(3, defn.pgn, 5, 255, data), already_combined=True)
                        b = [(f.id, common.val_view(f.value)) for f in exp.fields] if exp is not None else None
                        if a != b:
                            err = f"reassembled message differs from the decode of the segmented payload: {a[:3]} vs {b[:3] if b else None}"
                if err and len(vios) < 40:
                    vios.append({"kind": "public_path", "facts": {"format": fmt, "definition": defn.id}, "signature": f"c:{defn.pgn}:{defn.id}:{fmt}",
                                 "detail": f"[PGN {defn.pgn} {defn.id} base={base} {fmt}] {err}",
                                 "case": {"part": "c", "pgn": defn.pgn, "definition": defn.id, "base": base, "format": fmt}})
                if sample is None:
                    sample = {"part": "c", "pgn": defn.pgn, "definition": defn.id, "format": fmt, "frames": len(packets)}
    return n, vios, sample, 0


def _task_e(args):
    """a receiver that missed the end of the previous message on the stream (kept only its first j frames): the next
    message, fed completely and in order, must still come out once, at its last frame, with its own payload"""
    fmt, las = args
    bl = boundary_lengths()
    vios, n = [], 0
    sample = None
    for LA in las:
        nA = wire.n_frames(LA)
        for j in sorted({1, 2, nA // 2, nA - 1}):
            if not 1 <= j < nA:
                continue
            for LB in bl:
                enc, dec = NMEA2000Encoder(), NMEA2000Decoder()
                msg = NMEA2000Message(PGN=130816, id=CARRIERS[130816][0], priority=3, source=5, destination=255)
                enc._call_encode_function = lambda m, _p=pattern("seeded", LA, 3): _p
                try:
                    pk = encode(enc, fmt, msg)
                    early = [feed(dec, fmt, q) for q in pk[:j]]
                except Exception:  # noqa: BLE001
                    continue                       # the first message itself fails: parts (a)/(b) report that
                if any(m is not None for m in early):
                    continue
                v, _ = check_message(enc, dec, fmt, 130816, pattern("asc", LB), None,
                                     f"{fmt} after the first {j} of {nA} frames of a {LA}-byte message, next message L={LB}")
                n += 1
                for kind, facts, detail in v:
                    if len(vios) < 40:
                        vios.append({"kind": kind, "facts": dict(facts, format=fmt, part="e", mechanism="stale_partial_message"), "signature": f"e:{kind}:{fmt}",
                                     "detail": detail, "case": {"part": "e", "format": fmt, "LA": LA, "j": j, "LB": LB}})
                if sample is None and not v:
                    sample = {"part": "e", "format": fmt, "truncated_message": LA, "frames_kept": j, "next_message": LB}
    # a decoder that was handed a pre-assembled message of the same PGN before (a log replayed through the Actisense
    # entry point), then frames: the frames are reassembled as on a fresh decoder
    for LB in bl:
        enc, dec = NMEA2000Encoder(), NMEA2000Decoder()
        try:
            dec.decode_actisense_string(wire.actisense_line(3, 255, 5, 130816, pattern("asc", 9)))
        except Exception:  # noqa: BLE001
            pass
        v, _ = check_message(enc, dec, fmt, 130816, pattern("asc", LB), None, f"{fmt} after a pre-assembled message of the same PGN, next message L={LB}")
        n += 1
        for kind, facts, detail in v:
            if len(vios) < 40:
                vios.append({"kind": kind, "facts": dict(facts, format=fmt, part="e", mechanism="after_preassembled_message"), "signature": f"e2:{kind}:{fmt}",
                             "detail": detail, "case": {"part": "e", "format": fmt, "LA": las[0], "j": 0, "LB": LB, "pre": True}})
    return n, vios, sample, 0


def _task_f(args):
    """two messages of one addressed PGN from one sender to two destinations, encoded one after the other and put on the bus
    with their frames alternating: each is reassembled on its own"""
    fmt, = args
    bl = [L for L in boundary_lengths() if L >= 7][::3]
    vios, n = [], 0
    cid = CARRIERS[126720][0]
    for LA in bl:
        for LC in bl:
            enc, dec = NMEA2000Encoder(), NMEA2000Decoder()
            pa, pc = pattern("asc", LA), pattern("seeded", LC, 5)
            frames = {}
            try:
                for tag, dst, pay in (("a", 9, pa), ("c", 37, pc)):
                    enc._call_encode_function = lambda m, _p=pay: _p
                    frames[tag] = encode(enc, fmt, NMEA2000Message(PGN=126720, id=cid, priority=3, source=5, destination=dst))
            except Exception:  # noqa: BLE001
                continue
            order = []
            for i in range(max(len(frames["a"]), len(frames["c"]))):
                for tag in ("a", "c"):
                    if i < len(frames[tag]):
                        order.append((tag, i))
            got = {"a": [], "c": []}
            err = None
            for tag, i in order:
                try:
                    m = feed(dec, fmt, frames[tag][i])
                except Exception as ex:  # noqa: BLE001
                    err = f"frame {i} of message {tag}: {type(ex).__name__}: {ex}"
                    break
                if m is not None:
                    got[tag].append((i, m.destination, observed_int(m) if m.id == cid else None))
            n += 1
            for tag, dst, pay in (("a", 9, pa), ("c", 37, pc)):
                want = [(len(frames[tag]) - 1, dst, int.from_bytes(pay, "little"))]
                if err or got[tag] != want:
                    if len(vios) < 30:
                        vios.append({"kind": "interleaved_destinations", "facts": {"format": fmt, "part": "f"}, "signature": f"f:{fmt}",
                                     "detail": f"{fmt}: messages of {LA} and {LC} bytes to destinations 9 and 37, frames alternating: message to {dst} "
                                               f"{'-> ' + err if err else 'returned ' + str([(g[0], g[1]) for g in got[tag]]) + ', expected once at frame ' + str(want[0][0]) + ' with its own payload'}",
                                     "case": {"part": "f", "format": fmt, "LA": LA, "LC": LC}})
                    break
    return n, vios, {"part": "f", "format": fmt, "pairs": len(bl) ** 2}, 0


def _dispatch(t):
    return {"f": _task_f, "a": _task_a, "b": _task_b, "chain": _task_chain, "c": _task_c, "d": _task_d, "e": _task_e}[t[0]](t[1])


def run(ctx):
    if not hasattr(NMEA2000Encoder, "_call_encode_function"):
        raise RuntimeError("the seam used to inject arbitrary payloads (per-definition encode hook) has gone")
    tasks = []
    for fmt in FORMATS:
        for lo in range(0, 224, 16):
            tasks.append(("a", (fmt, list(range(lo, min(lo + 16, 224))), ctx.seed)))
        bl = boundary_lengths()
        depth = 3 if ctx.thorough else 2
        for i in range(0, len(bl), 4 if ctx.thorough else 14):
            tasks.append(("b", (fmt, bl[i:i + (4 if ctx.thorough else 14)], depth)))
        tasks.append(("chain", (fmt,)))
        tasks.append(("f", (fmt,)))
        multi = [L for L in boundary_lengths() if wire.n_frames(L) >= 2]
        for i in range(0, len(multi), 6):
            tasks.append(("e", (fmt, multi[i:i + 6])))
        if ctx.thorough:
            pres = ["".join(p) for p in itertools.product("AB", repeat=7)]
            for i in range(0, len(pres), 4):
                tasks.append(("d", (fmt, pres[i:i + 4], 17)))
            pres3 = ["".join(p) for p in itertools.product("ABC", repeat=4) if "C" in p]
            for i in range(0, len(pres3), 5):
                tasks.append(("d", (fmt, pres3[i:i + 5], 10)))
        else:
            pres = ["".join(p) for p in itertools.product("AB", repeat=3)]
            for pre in pres:
                tasks.append(("d", (fmt, [pre], 11)))
    db = refdb.db()
    fast_enc = [d.idx for d in db.defs if d.encodable and d.fast]
    for i in range(0, len(fast_enc), 12):
        tasks.append(("c", (fast_enc[i:i + 12],)))
    results = common.pmap(_dispatch, tasks)
    vios, samples = [], []
    counts = {"a": 0, "b": 0, "chain": 0, "c": 0, "d": 0, "e": 0, "f": 0}
    seqs = 0
    for t, (n, v, s, sq) in zip(tasks, results):
        counts[t[0]] += n
        vios += v
        seqs = max(seqs, sq)
        if s and len([x for x in samples if x["part"] == t[0]]) < 1:
            samples.append(s)
    total = sum(counts.values())
    cov = {
        "states": counts["a"] + counts["c"], "transitions": total, "traces_validated_against_impl": total, "evaluations": total,
        "distinct_nontrivial": counts["a"] - 3 * 8 * 4 * 7, "distinct_outcomes": seqs,
        "rule": "(a) one case per (format, length 0..223, counter state 0..7, byte pattern); non-trivial = multi-frame (length > 6). "
                "(b) messages of all ordered tuples of boundary lengths on one encoder/decoder pair. (c) encodable fast definitions x "
                "4 bases x 3 formats. (d) every sequence of messages over 2-3 streams that share one encoder counter. (e) every boundary length after the first 1, 2, n/2, n-1 frames of every multi-frame boundary length.  distinct_outcomes = distinct sequence counters observed in one task",
        "samples": samples, "per_part": counts, "fast_encodable_definitions": len(fast_enc),
        "bound_completed": f"(a) complete; (b) ordered {'triples' if ctx.thorough else 'pairs'} over {len(boundary_lengths())} boundary lengths + 17-message chain; (c) complete; "
                           f"(d) all stream sequences over 2 streams of {'17 messages (and over 3 streams of 10 with the third in the first four)' if ctx.thorough else '11 messages'} on one encoder/decoder pair; (e) complete over the boundary lengths",
        "exhaustive": True,
    }
    return {"coverage": cov, "violations": vios,
            "assumptions": ["arbitrary payloads enter through the per-definition encode hook stubbed on the encoder instance",
                            "payload observed through the fallback definitions of PGN 126720 / 130816, compared as integers"]}


def replay(ctx, rep):
    c = rep["case"]
    if c["part"] == "a":
        enc, dec = NMEA2000Encoder(), NMEA2000Decoder()
        prev = None
        for j in range(c["state"]):
            v, prev = check_message(enc, dec, c["format"], 130816, pattern("asc", 9), prev, "warm-up")
        v, prev = check_message(enc, dec, c["format"], c["pgn"], pattern(c["pattern"], c["length"], c.get("seed", 0)), prev, "replay")
        return [{"kind": k, "facts": f, "detail": d, "case": c} for k, f, d in v]
    if c["part"] == "b":
        enc, dec = NMEA2000Encoder(), NMEA2000Decoder()
        prev = None
        for L in c["lengths"]:
            v, prev = check_message(enc, dec, c["format"], 130816, pattern("asc", L), prev, "replay")
            if v:
                return [{"kind": k, "facts": f, "detail": d, "case": c} for k, f, d in v]
        return []
    if c["part"] == "d":
        enc, dec = NMEA2000Encoder(), NMEA2000Decoder()
        prev = None
        bl = [9, 13, 0, 6, 7, 14, 20, 223, 21, 1]
        for idx, st in enumerate(c["streams"]):
            pgn, dst = STREAMS[st]
            L = bl[(idx * 3 + c.get("offset", 0)) % len(bl)]
            v, prev = check_message_on(enc, dec, c["format"], pgn, dst, pattern("asc" if idx % 2 else "seeded", L, idx), prev, "replay")
            if v:
                return [{"kind": k, "facts": f, "detail": d, "case": c} for k, f, d in v]
        return []
    if c["part"] == "chain":
        n, v, s, q = _task_chain((c["format"],))
        return v
    if c["part"] == "f":
        n, v, s, q = _task_f((c["format"],))
        return [x for x in v if x["case"]["LA"] == c["LA"] and x["case"]["LC"] == c["LC"]][:1] or v[:1]
    if c["part"] == "e":
        n, v, s, q = _task_e((c["format"], [c["LA"]]))
        return [x for x in v if x["case"]["j"] == c["j"] and x["case"]["LB"] == c["LB"] and x["case"].get("pre") == c.get("pre")][:1] or v[:1]
    n, v, s, q = _task_c(([refdb.db().by_id[(c["pgn"], c["definition"])].idx],))
    return v
