"""C07 - the same CAN frame decodes identically through every input format.

Exhaustive differential enumeration: every known PGN x addressing grid x data patterns; the frame
(or the frames of a fast-packet message, short and padded final frame) rendered by mc/wire.py in
EByte, USB, Yacht Devices (R/T, upper/lower-case hex), Actisense (upper/lower case), and canboat
plain text (both timestamp forms; frame-level and pre-assembled).  All renderings must decode to
the same message (definition, addressing, priority, field values and raw values) or all fail."""
from __future__ import annotations

from .. import common, payloads, refdb, wire
from nmea2000.decoder import NMEA2000Decoder

ID = "C07"


def view(m):
    if m is None:
        return None
    return common.msg_view(m, with_identity=False)


def attempt(fn, *a, **kw):
    try:
        return view(fn(*a, **kw))
    except Exception as ex:  # noqa: BLE001
        return ("error",)


def single_renderings(prio, pgn, src, dst, data):
    """name -> callable(decoder) for one CAN frame"""
    ident = wire.can_id(prio, pgn, src, dst)
    r = {
        "ebyte": lambda d: d.decode_tcp(wire.ebyte_packet(ident, data)),
        "ebyte_padFF": lambda d: d.decode_tcp(wire.ebyte_packet(ident, data, pad=0xFF)),
        "usb": lambda d: d.decode_usb(wire.usb_packet(ident, data)),
        "usb_padFF": lambda d: d.decode_usb(wire.usb_packet(ident, data, pad=0xFF)),
        "yd_R": lambda d: d.decode_yacht_devices_string(wire.yd_line(ident, data, "R")),
        "yd_T_lower": lambda d: d.decode_yacht_devices_string(wire.yd_line(ident, data, "T", ts="23:59:59.999", upper=False)),
        "plain_dash": lambda d: d.decode_basic_string(wire.plain_line(prio, pgn, src, dst, data)),
        "plain_Z_upper": lambda d: d.decode_basic_string(wire.plain_line(prio, pgn, src, dst, data, ts="2024-01-01T12:00:00.000Z", upper=True)),
    }
    return r


def whole_renderings(prio, pgn, src, dst, payload):
    return {
        "actisense": lambda d: d.decode_actisense_string(wire.actisense_line(prio, dst, src, pgn, payload)),
        "actisense_lower": lambda d: d.decode_actisense_string(wire.actisense_line(prio, dst, src, pgn, payload, ts="A173321.107", upper=False)),
        "plain_combined": lambda d: d.decode_basic_string(wire.plain_line(prio, pgn, src, dst, payload), already_combined=True),
    }


def patterns(defn, seed):
    out = []
    for b in ("mid", "max", "min"):
        p, n = payloads.build(defn, payloads.base_assignment(defn, b))
        out.append((b, p.to_bytes(n, "little")))
    n = out[0][1].__len__()
    sv = common.seeded_values(seed, 1, 8 * n, f"c07:{defn.pgn}:{defn.id}")[0].to_bytes(n, "little") if n else b""
    # keep the match fields so the same definition is addressed
    p = int.from_bytes(sv, "little")
    for f in defn.match_fields:
        m = ((1 << f.bits) - 1) << f.offset
        p = (p & ~m) | (f.match << f.offset)
    out.append(("seeded", p.to_bytes(n, "little") if n else b""))
    return out


def _task(args):
    idxs, grid, seed = args
    db = refdb.db()
    vios = []
    st = {"frames": 0, "decodes": 0, "nontrivial": 0, "agree_decoded": 0, "agree_failed": 0}
    sample = None
    for di in idxs:
        defn = db.defs[di]
        pgn = defn.pgn
        pdu1 = ((pgn >> 8) & 0xFF) < 240
        for label, payload in patterns(defn, seed):
            for (prio, src, dst) in grid:
                if not pdu1:
                    dst = 255
                results = {}
                if defn.fast:
                    if len(payload) > 223:
                        continue
                    for padname, pad in (("short", None), ("padFF", 0xFF), ("pad00", 0x00)):
                        frames = wire.fast_frames((prio + src) & 7, payload, pad)
                        for name in ("ebyte", "ebyte_padFF", "usb", "usb_padFF", "yd_R", "yd_T_lower", "plain_dash", "plain_Z_upper"):
                            d = NMEA2000Decoder()
                            last = None
                            early = False
                            for i, fr in enumerate(frames):
                                last = attempt(single_renderings(prio, pgn, src, dst, fr)[name], d)
                                st["decodes"] += 1
                                if last is not None and i < len(frames) - 1:
                                    early = True
                            results[f"{name}/{padname}"] = ("early",) if early else last
                else:
                    if len(payload) > 8:
                        continue
                    for name, fn in single_renderings(prio, pgn, src, dst, payload).items():
                        results[name] = attempt(fn, NMEA2000Decoder())
                        st["decodes"] += 1
                for name, fn in whole_renderings(prio, pgn, src, dst, payload).items():
                    results[name] = attempt(fn, NMEA2000Decoder())
                    st["decodes"] += 1
                # the same renderings again on one long-lived decoder (whole-message formats first, then
                # frame-level ones, and the reverse): what a format returns must not depend on which
                # formats the decoder has served before
                if (st["frames"] % 3 == 0 or defn.fast) and len(payload) <= 223:
                    for order in ("whole_first", "frames_first"):
                        shared = NMEA2000Decoder()
                        seq = []
                        whole = list(whole_renderings(prio, pgn, src, dst, payload).items())
                        if defn.fast:
                            frames = wire.fast_frames((prio + src + 3) & 7, payload, None)
                            frame_level = [(name, frames) for name in ("ebyte", "usb", "yd_R", "plain_dash")]
                        else:
                            frame_level = [(name, [payload]) for name in ("ebyte", "usb", "yd_R", "plain_dash")] if len(payload) <= 8 else []
                        plan = (whole + frame_level) if order == "whole_first" else (frame_level + whole)
                        for name, what in plan:
                            if isinstance(what, list):
                                last, early = None, False
                                for i, fr in enumerate(what):
                                    last = attempt(single_renderings(prio, pgn, src, dst, fr)[name], shared)
                                    st["decodes"] += 1
                                    if last is not None and i < len(what) - 1:
                                        early = True
                                results[f"shared/{order}/{name}"] = ("early",) if early else last
                            else:
                                results[f"shared/{order}/{name}"] = attempt(what, shared)
                                st["decodes"] += 1
                st["frames"] += 1
                vals = list(results.values())
                decoded = [v for v in vals if isinstance(v, tuple) and len(v) > 1]
                failed = [v for v in vals if not (isinstance(v, tuple) and len(v) > 1)]
                if decoded and not failed and all(v == decoded[0] for v in decoded):
                    st["agree_decoded"] += 1
                    if defn.fast or len(payload) < 8:
                        st["nontrivial"] += 1
                    if sample is None and defn.fast:
                        sample = {"pgn": pgn, "definition": defn.id, "pattern": label, "payload_hex": payload.hex()[:60], "renderings": sorted(results)}
                    continue
                if not decoded:
                    st["agree_failed"] += 1
                    continue
                # disagreement
                ref = decoded[0]
                odd = sorted(n for n, v in results.items() if v != ref)
                if len(vios) < 60:
                    why = []
                    for n_ in odd[:3]:
                        v = results[n_]
                        if isinstance(v, tuple) and len(v) > 1:
                            diff = [i for i, (x, y) in enumerate(zip(v, ref)) if x != y]
                            why.append(f"{n_}: differs in {['PGN', 'id', 'description', 'ttl', 'source', 'destination', 'priority', 'fields', 'identity', 'hash'][diff[0]] if diff else '?'}")
                        else:
                            why.append(f"{n_}: {v}")
                    vios.append({"kind": "formats_disagree", "facts": {"definition": defn.id, "odd": odd[:4]},
                                 "signature": f"dis:{pgn}:{defn.id}:{odd[:2]}",
                                 "detail": f"[PGN {pgn} {defn.id} pattern={label} payload={payload.hex()[:48]} prio={prio} src={src} dst={dst}] "
                                           f"{len(odd)} of {len(results)} renderings differ from {sorted(results)[0] if sorted(results)[0] not in odd else 'the majority'}: {'; '.join(why)}",
                                 "case": {"pgn": pgn, "definition": defn.id, "pattern": label, "payload_hex": payload.hex(), "addr": [prio, src, dst], "seed": seed}})
    return st, vios, sample


def _task_interleave(args):
    """two fast-packet messages of one PGN whose frames alternate on the bus - same source to two destinations
    (addressed PGNs), or two sources - through each frame-level format on one decoder: each must come out exactly
    as the same payload does when delivered pre-assembled"""
    idxs, seed = args
    db = refdb.db()
    vios = []
    st = {"frames": 0, "decodes": 0, "nontrivial": 0, "agree_decoded": 0, "agree_failed": 0}
    for di in idxs:
        defn = db.defs[di]
        if not defn.fast:
            continue
        pgn = defn.pgn
        pdu1 = ((pgn >> 8) & 0xFF) < 240
        pa = patterns(defn, seed)
        pay_a, pay_b = pa[0][1], pa[1][1]
        if not (0 < len(pay_a) <= 223 and 0 < len(pay_b) <= 223):
            continue
        variants = [("two sources", (3, 35, 255), (3, 36, 255))]
        if pdu1:
            variants.append(("one source, two destinations", (3, 35, 10), (3, 35, 20)))
        for vname, (pr_a, src_a, dst_a), (pr_b, src_b, dst_b) in variants:
            ref_a = attempt(whole_renderings(pr_a, pgn, src_a, dst_a, pay_a)["actisense"], NMEA2000Decoder())
            ref_b = attempt(whole_renderings(pr_b, pgn, src_b, dst_b, pay_b)["actisense"], NMEA2000Decoder())
            for seq_a, seq_b in ((1, 2), (4, 4)):
                fa, fb = wire.fast_frames(seq_a, pay_a, None), wire.fast_frames(seq_b, pay_b, None)
                order = []
                for i in range(max(len(fa), len(fb))):
                    if i < len(fa):
                        order.append(("a", i))
                    if i < len(fb):
                        order.append(("b", i))
                for name in ("ebyte", "usb", "yd_R", "plain_dash"):
                    d = NMEA2000Decoder()
                    got = {"a": None, "b": None}
                    early = False
                    for who, i in order:
                        hdr, frames = ((pr_a, pgn, src_a, dst_a), fa) if who == "a" else ((pr_b, pgn, src_b, dst_b), fb)
                        r = attempt(single_renderings(*hdr, frames[i])[name], d)
                        st["decodes"] += 1
                        if i == len(frames) - 1:
                            got[who] = r
                        elif r is not None:
                            early = True
                    st["frames"] += 1
                    st["nontrivial"] += 1
                    ok = not early and got["a"] == ref_a and got["b"] == ref_b
                    if ok:
                        st["agree_decoded"] += 1
                    elif len(vios) < 40:
                        which = "early delivery" if early else ("first" if got["a"] != ref_a else "second")
                        vios.append({"kind": "formats_disagree", "facts": {"definition": defn.id, "mechanism": "interleaved_streams", "variant": vname},
                                     "signature": f"inter:{pgn}:{defn.id}:{vname}:{name}",
                                     "detail": f"[PGN {pgn} {defn.id}, {vname}, counters {seq_a}/{seq_b}, frames alternating, through {name}] the {which} message "
                                               f"differs from its pre-assembled delivery: {str(got['a'] if got['a'] != ref_a else got['b'])[:80]}",
                                     "case": {"pgn": pgn, "definition": defn.id, "interleave": vname, "seed": seed}})
        # an earlier transmission on the same stream that was cut short (its last frames lost), then a complete message with
        # another counter: delivered frame by frame it still equals its pre-assembled delivery
        prio, src, dst = 3, 35, 255 if not pdu1 else 10
        ref_b = attempt(whole_renderings(prio, pgn, src, dst, pay_b)["actisense"], NMEA2000Decoder())
        fa, fb = wire.fast_frames(1, pay_a, None), wire.fast_frames(2, pay_b, None)
        if len(fa) >= 2:
            for keep in sorted({1, len(fa) // 2, len(fa) - 1}):
                if not 1 <= keep < len(fa):
                    continue
                for name in ("ebyte", "usb", "yd_R", "plain_dash"):
                    d = NMEA2000Decoder()
                    for fr in fa[:keep]:
                        attempt(single_renderings(prio, pgn, src, dst, fr)[name], d)
                    last, early = None, False
                    for i, fr in enumerate(fb):
                        last = attempt(single_renderings(prio, pgn, src, dst, fr)[name], d)
                        st["decodes"] += 1
                        if last is not None and i < len(fb) - 1:
                            early = True
                    st["frames"] += 1
                    st["nontrivial"] += 1
                    if early or last != ref_b:
                        if len(vios) < 40:
                            vios.append({"kind": "formats_disagree", "facts": {"definition": defn.id, "mechanism": "after_truncated_transmission"},
                                         "signature": f"trunc:{pgn}:{defn.id}:{name}",
                                         "detail": f"[PGN {pgn} {defn.id}, the first {keep} of {len(fa)} frames of an earlier message, then a complete message with another counter, through {name}] "
                                                   f"{'a message was returned before the last frame' if early else 'the message differs from its pre-assembled delivery: ' + str(last)[:80]}",
                                         "case": {"pgn": pgn, "definition": defn.id, "interleave": "truncated", "seed": seed}})
                    else:
                        st["agree_decoded"] += 1
    return st, vios, None


def _task_clients(args):
    """the formats as the gateway clients read them off a connection: the same frames written to the link of each client, in
    one piece and in pieces that end inside packets, arrive as the message their pre-assembled delivery decodes to"""
    kind, = args
    from .. import clientkit, vloop
    db = refdb.db()
    vios = []
    st = {"frames": 0, "decodes": 0, "nontrivial": 0, "agree_decoded": 0, "agree_failed": 0}
    for pgn, did in ((129029, "gnssPositionData"), (127250, "vesselHeading"), (126720, "0x1ef00ManufacturerProprietaryFastPacketAddressed"), (59904, "isoRequest")):
        defn = db.by_id.get((pgn, did))
        if defn is None:
            continue
        p, n = payloads.build(defn, payloads.base_assignment(defn, "mid"))
        payload = p.to_bytes(n, "little")
        prio, src, dst = 3, 200, 255 if ((pgn >> 8) & 0xFF) >= 240 else 37
        ref = attempt(whole_renderings(prio, pgn, src, dst, payload)["actisense"], NMEA2000Decoder())
        packets = clientkit.render_message(kind, prio, pgn, src, dst, payload, defn.fast, seq=3)
        stream = b"".join(packets) * 2                     # the message twice (the second one with the same counter is a repeat a sender may make)
        stream = b"".join(packets) + b"".join(clientkit.render_message(kind, prio, pgn, src, dst, payload, defn.fast, seq=4))
        for piece in (len(stream), 7, 5) + ((1,) if len(stream) <= 400 else ()):   # byte-by-byte only where the session stays within the boundary cap
            chunks = [stream[i:i + piece] for i in range(0, len(stream), piece)]
            sess = vloop.Session(kind=kind, script=[vloop.it_connect] + [vloop.it_feed(c, 0) for c in chunks])
            o = sess.run()
            st["frames"] += 1
            st["decodes"] += len(chunks)
            st["nontrivial"] += 1
            got = [common.msg_view(None) if v is None else v[:8] for _, v in o.received]
            want = [ref[:8], ref[:8]] if isinstance(ref, tuple) and len(ref) > 1 else []
            if o.end_reason != "quiescent" or got != want:
                if len(vios) < 20:
                    vios.append({"kind": "formats_disagree", "facts": {"definition": did, "mechanism": "client_reading", "client": kind},
                                 "signature": f"client:{kind}:{pgn}:{piece}",
                                 "detail": f"[PGN {pgn} {did} sent twice to the {kind} client in pieces of {piece} bytes] the client delivered {len(got)} message(s) "
                                           f"{'that differ from' if len(got) == len(want) else 'instead of'} the {len(want)} its pre-assembled delivery decodes to ({o.end_reason})",
                                 "case": {"pgn": pgn, "definition": did, "client": kind, "piece": piece}})
            else:
                st["agree_decoded"] += 1
    return st, vios, None


def _dispatch(t):
    if t[0] == "clients":
        return _task_clients(t[1])
    return _task_interleave(t[1]) if t[0] == "interleave" else _task(t[1])


def run(ctx):
    db = refdb.db()
    full = [(pr, s, d) for pr in (0, 3, 7) for s in (0, 1, 254) for d in (0, 37, 255)]
    grid = full if ctx.thorough else [full[i] for i in (0, 13, 26, 7)]
    n = len(db.defs)
    order = sorted(range(n), key=lambda i: -(db.defs[i].byte_length() if db.defs[i].fast else 4))
    nb = 64
    buckets = [[] for _ in range(nb)]
    for j, i in enumerate(order):
        buckets[j % nb].append(i)
    fast = [d.idx for d in db.defs if d.fast]
    tasks = [("main", (b, grid, ctx.seed)) for b in buckets if b] + [("interleave", (fast[j::16], ctx.seed)) for j in range(16) if fast[j::16]]
    tasks += [("clients", (k,)) for k in ("ebyte", "waveshare", "yd", "actisense")]
    results = common.pmap(_dispatch, tasks)
    vios, samples = [], []
    tot = {"frames": 0, "decodes": 0, "nontrivial": 0, "agree_decoded": 0, "agree_failed": 0}
    for st, v, s in results:
        vios += v
        for k in tot:
            tot[k] += st[k]
        if s and len(samples) < 3:
            samples.append(s)
    cov = {
        "states": tot["frames"], "transitions": tot["decodes"], "traces_validated_against_impl": tot["decodes"], "evaluations": tot["decodes"],
        "distinct_nontrivial": tot["nontrivial"], "distinct_outcomes": 2 + len({v["kind"] for v in vios}),
        "rule": "state = (definition, data pattern, addressing); every state is decoded through 11 (single frame) or 27 (fast packet: 8 "
                "frame-level renderings x 3 paddings + 3 pre-assembled) renderings; non-trivial = agreeing decoded states that are "
                "fast-packet or shorter than 8 bytes",
        "samples": samples, "totals": tot, "addressing_grid": len(grid),
        "bound_completed": f"all {n} definitions x 4 data patterns (mid, max, min, seeded) x {len(grid)} addressings; every fast-packet definition as two interleaved "
                           "streams (two sources; two destinations for addressed PGNs) x 2 counter pairs x 4 frame-level formats; 4 messages through the 4 gateway clients in pieces of 1, 5, 7 bytes and whole", "exhaustive": True,
    }
    return {"coverage": cov, "violations": vios,
            "assumptions": ["renderings written from the format descriptions (mc/wire.py)",
                            "besides a fresh decoder per rendering, the renderings are fed to one shared decoder in two orders (history independence)",
                            "broadcast (PDU2) PGNs are rendered with destination 255 in the formats that carry an explicit destination"]}


def replay(ctx, rep):
    c = rep["case"]
    db = refdb.db()
    defn = db.by_id[(c["pgn"], c["definition"])]
    if "client" in c:
        st, v, s = _task_clients((c["client"],))
        return [x for x in v if x["case"]["pgn"] == c["pgn"] and x["case"]["piece"] == c["piece"]][:1]
    if "interleave" in c:
        st, v, s = _task_interleave(([defn.idx], c.get("seed", 0)))
        return [x for x in v if x["case"]["interleave"] == c["interleave"]][:1]
    st, v, s = _task(([defn.idx], [tuple(c["addr"])], c.get("seed", 0)))
    return [x for x in v if x["case"]["pattern"] == c["pattern"]][:1]
