"""C14 - close() is final; status notifications faithful.

Stateless, deviation-bounded exploration of the real clients on the virtual loop:
close() is issued at every loop-iteration boundary of every base session (k=1), and
together with one further event (fault, send, connect, second close) at every pair of
boundaries (k=2), for every status-callback behaviour."""
from __future__ import annotations

from .. import clientkit, common, vloop
from ..vloop import (it_connect, it_feed, it_send, sp_close, sp_connect, sp_eof, sp_reset, sp_send,
                     steady_state)

ID = "C14"

BASES = {
    "r0": ("accept",),
    "r1": ("refuse", "accept"),
    "r3": ("refuse", "refuse", "refuse", "accept"),
}
def sp_wfail_sync(sess):
    """the next write fails in write() itself (RuntimeError) while the read side of the link stays healthy: the reconnection then
    starts from send()'s failure handler, with the old receive loop still alive"""
    if sess.gw.fail_write_armed:
        return False
    sess.gw.write_error_sync = True
    sess.gw.write_error = lambda: RuntimeError("unable to perform operation on the transport (injected, write only)")
    sess.gw.fail_write_armed = True
    return True


SPECIALS = {
    "close": sp_close,
    "close2": sp_close,
    "eof": sp_eof,
    "reset": sp_reset,
    "send": sp_send(lambda: clientkit.heading_message(55)),
    "connect2": sp_connect,
    "wfail_sync": sp_wfail_sync,
}


def make_kwargs_factory(kind, base, status_mode, recv_mode="ok", backpressure=False, map_on=False):
    pk = clientkit.std(kind)
    a = pk["A"]

    def setup(gw):
        # the transport suspends every application write (the gateway has stalled): send() hangs in drain()
        skip = 1 if kind == "waveshare" else 0
        gw.pause_policy = lambda idx: idx >= skip

    def make(devs):
        return dict(kind=kind, setup=setup if backpressure else None, client_kw={"build_network_map": True} if map_on else None,
                    script=[it_connect, it_feed(a[:7]), it_feed(a[7:]), it_feed(pk["A2"]),
                            it_send(lambda: clientkit.heading_message(66))],
                    specials=SPECIALS, deviations=devs, heal=steady_state(pk["PROBE"]),
                    connect_plan=BASES[base], status_cb=status_mode, recv_cb=recv_mode)
    return make


def compress(seq):
    out = []
    for x in seq:
        if not out or out[-1] != x:
            out.append(x)
    return out


def is_subsequence(small, big):
    it = iter(big)
    return all(any(x == y for y in it) for x in small)


def judge(sess, o):
    """-> list of (kind, facts, detail)"""
    out = []
    used = [d[1] for d in sess.deviations]
    if not any(n.startswith("close") for n in used):
        return out
    flags = o.flags
    if flags.get("livelock") or flags.get("watchdog") or flags.get("busy_loop"):
        out.append(("loop_monopolised", {"flag": sorted(k for k in ("livelock", "watchdog", "busy_loop") if flags.get(k))},
                    f"end={o.end_reason}"))
        return out
    if not sess.close_entered:
        out.append(("close_never_ran", {}, "the close() task was never started"))
        return out
    if "left_closed_at" in flags:
        out.append(("state_left_closed", {"state_after": o.states[flags["left_closed_at"]]},
                    f"client.state == {o.states[flags['left_closed_at']]} at boundary {flags['left_closed_at']} after close() was entered"))
    n_at = o.marks.get("attempts_at_close", 0)
    if len(sess.gw.attempts) > n_at:
        out.append(("connect_after_close", {}, f"{len(sess.gw.attempts) - n_at} connection attempt(s) started after close() was entered"))
    # the client's current link is its latest connection: a gateway that has only half-closed it (EOF) has not shut it;
    # older connections the gateway ended are not 'the link' any more
    # (a connection on which a write was made to fail is dead as far as the link is concerned, even where the injected failure
    # left its read side up)
    open_conns = [c.cid for c in sess.gw.conns if not (c.closed_by_client or c.lost or c.reset or c.write_failed_at is not None
                                                       or (c.eof_sent and c is not sess.gw.conns[-1]))]
    if open_conns:
        out.append(("connection_left_open", {}, f"connections {open_conns} never closed by the client"))
    still = [x for x in o.marks.get("open_at_close_return", []) if x]
    if still:
        out.append(("close_returned_before_link_shut", {}, f"connection(s) {still[0]} still open when a close() call returned"))
    if not sess.close_returned:
        out.append(("close_did_not_return", {}, f"close() had not returned when the execution ended ({o.end_reason})"))
    if o.cb_active_after_close:
        out.append(("callback_after_close", {}, f"{o.cb_active_after_close} receive callback(s) started after close() returned"))
    if o.tasks_left:
        out.append(("tasks_left", {"tasks": o.tasks_left}, f"still pending at the horizon: {o.tasks_left}"))
    names = [n for _, n in o.status]
    if any(a == b for a, b in zip(names, names[1:])):
        out.append(("status_repeated", {}, f"status trace {names}"))
    if "CLOSED" in names and names.index("CLOSED") != len(names) - 1:
        out.append(("status_after_closed", {}, f"status trace {names}"))
    if names and names[0] == "DISCONNECTED":
        out.append(("status_spurious", {}, f"first notification is the initial state: {names}"))
    changes = compress(o.states)[1:]
    if not is_subsequence(changes, names):
        out.append(("status_missed_change", {}, f"observed state changes {changes} not all notified, trace {names}"))
    if names and o.states and names[-1] != o.states[-1] and o.states[-1] != "DISCONNECTED":
        out.append(("status_final_mismatch", {}, f"final state {o.states[-1]}, last notification {names[-1]}"))
    if o.end_reason not in ("quiescent",):
        out.append(("no_quiescence", {"end": o.end_reason}, f"execution ended with {o.end_reason}"))
    return out


def _explore(args):
    kind, base, status_mode, k, names = args[:5]
    recv_mode = args[5] if len(args) > 5 else "ok"
    bp = bool(args[6]) if len(args) > 6 else False
    map_on = bool(args[7]) if len(args) > 7 else False
    make = make_kwargs_factory(kind, base, status_mode, recv_mode, bp, map_on)
    stats = {"runs": 0, "judged": 0, "outcomes": set(), "boundaries_base": 0, "nontrivial": 0}
    vios = []
    samples = []

    def on_exec(devs, sess, o):
        if not devs:
            stats["boundaries_base"] = len([b for b in o.boundaries if not b[0].startswith("special:")])
        if not any(d[1].startswith("close") for d in devs):
            return
        stats["judged"] += 1
        sig = (tuple(n for _, n in o.status), o.states[-1] if o.states else None, len(sess.gw.attempts), len(sess.gw.conns), o.end_reason)
        stats["outcomes"].add(sig)
        # non-trivial: close() landed while something was in flight (connect pending, retry wait, packet half read, send running)
        m = o.marks.get("attempts_at_close", 0)
        if any(a.resolved_at is None or a.resolved_at >= o.marks.get("close_entered_t", 0) for a in sess.gw.attempts[:m]) or len(devs) > 1:
            stats["nontrivial"] += 1
        for kind_v, facts, detail in judge(sess, o):
            facts = dict(facts, client=kind)
            vios.append({"kind": kind_v, "facts": facts,
                         "signature": f"{kind_v}:{kind}:{base}:{status_mode}:{recv_mode}:{[d[1] for d in devs]}",
                         "detail": f"[{kind} base={base} status_cb={status_mode} recv_cb={recv_mode}{' back-pressure' if bp else ''} devs={devs}] {detail}",
                         "case": {"client": kind, "base": base, "status_cb": status_mode, "recv_cb": recv_mode, "backpressure": bp, "map_on": map_on, "deviations": [list(d) for d in devs]}})
        if len(samples) < 2 and len(devs) == k:
            samples.append({"client": kind, "base": base, "status_cb": status_mode, "deviations": [list(d) for d in devs],
                            "status": o.status, "attempts": [(round(a.t, 3), a.outcome) for a in sess.gw.attempts]})

    cnt = vloop.explore_placements(make, names, k, on_exec)
    stats["runs"] = cnt["runs"]
    stats["redundant"] = cnt["redundant"]
    stats["outcomes"] = len(stats["outcomes"])
    return stats, vios, samples


def plan(ctx):
    tasks = []
    all_names = list(SPECIALS)
    for kind in vloop.KINDS:
        tasks.append((kind, "r1", "raise_bare", 1, ["close", "reset"]))
        for mode in ("ok", "raise", "slow"):
            if ctx.thorough:
                tasks.append((kind, "r1", mode, 2, all_names))
                tasks.append((kind, "r0", mode, 2, all_names))
                tasks.append((kind, "r3", mode, 1, ["close"]))
            else:
                tasks.append((kind, "r1", mode, 2, ["close", "close2", "reset", "connect2", "send"] if mode != "ok" else all_names))
                tasks.append((kind, "r0", mode, 1, ["close"]))
    for kind in ("ebyte", "yd", "waveshare"):
        # close() around a reconnection that was started by a failing write (the old receive loop is still running then)
        tasks.append((kind, "r0", "ok", 2, ["close", "wfail_sync"]))
        if ctx.thorough:
            tasks.append((kind, "r0", "slow", 2, ["close", "wfail_sync"]))
            tasks.append((kind, "r1", "ok", 3, ["close", "wfail_sync", "send"]))
    for kind in ("ebyte", "yd", "waveshare"):
        # close() while a send() is suspended in drain() under back-pressure, then the link fails
        tasks.append((kind, "r0", "ok", 2, ["close", "reset", "eof", "send"], "ok", True))
        tasks.append((kind, "r0", "slow", 2 if ctx.thorough else 1, ["close", "reset"], "ok", True))
    for kind in vloop.KINDS:
        # network mapping on: the clients start a task that sends ISO requests 2, 4 and 6 s after connecting;
        # it must not outlive close() for long nor reopen anything
        tasks.append((kind, "r0", "ok", 2 if ctx.thorough else 1, ["close", "reset"], "ok", False, True))
    for kind in vloop.KINDS:
        # close() while a (slow / failing) receive callback is in progress
        tasks.append((kind, "r0", "ok", 2 if ctx.thorough else 1, ["close", "reset", "eof"] if ctx.thorough else ["close"], "slow"))
        tasks.append((kind, "r0", "slow", 1, ["close"], "raise"))
    if ctx.thorough:
        for kind in vloop.KINDS:
            tasks.append((kind, "r1", "ok", 3, ["close", "reset", "connect2"]))
    return tasks


def run(ctx):
    tasks = plan(ctx)
    results = common.pmap(_explore, tasks)
    vios, samples = [], []
    runs = judged = nontriv = outcomes = 0
    per = {}
    for t, (st, v, s) in zip(tasks, results):
        vios += v
        samples += s[:1]
        runs += st["runs"]
        judged += st["judged"]
        nontriv += st["nontrivial"]
        outcomes += st["outcomes"]
        per[f"{t[0]}/{t[1]}/{t[2]}/k{t[3]}" + (f"/recv={t[5]}" if len(t) > 5 else "") + ("/backpressure" if len(t) > 6 and t[6] else "") + ("/map" if len(t) > 7 and t[7] else "")] = {"executions": st["runs"], "judged": st["judged"], "redundant": st["redundant"],
                                               "base_boundaries": st["boundaries_base"], "distinct_outcomes": st["outcomes"]}
    cov = {
        "states": judged, "transitions": runs, "traces_validated_against_impl": runs,
        "evaluations": runs, "distinct_nontrivial": nontriv,
        "rule": "one execution per placement of <=k special events (close, second close, EOF, reset, send, connect) over the "
                "loop-iteration boundaries of a base session; judged = executions containing a close(); non-trivial = close() "
                "entered while a connection attempt was unanswered, or combined with a second event",
        "samples": samples[:4], "configs": per, "distinct_outcomes": outcomes,
        "bound_completed": "k=2 placements (k=1 on the r0 bases); thorough adds k=3 over {close, reset, connect}" if not ctx.thorough
                           else "k=2 all specials on r0/r1, k=1 on r3, k=3 over {close, reset, connect} on r1",
        "exhaustive": True,
        "explanation": "every execution runs the real client on the virtual loop to quiescence; 'states' counts judged executions",
    }
    return {"coverage": cov, "violations": vios,
            "assumptions": ["sockets and time replaced by the fake transport and virtual clock; asyncio stream classes are real",
                            "the gateway answers a connection attempt at the first quiescent boundary after it was made"]}


def replay(ctx, rep):
    c = rep["case"]
    make = make_kwargs_factory(c["client"], c["base"], c["status_cb"], c.get("recv_cb", "ok"), c.get("backpressure", False), c.get("map_on", False))
    devs = [tuple(d) for d in c["deviations"]]
    sess, o = vloop.run_session(**make(devs))
    sess2, o2 = vloop.run_session(**make(devs))
    if o.digest() != o2.digest():
        raise vloop.HarnessError("replay is not deterministic")
    return [{"kind": k, "facts": dict(f, client=c["client"]), "detail": d, "case": c} for k, f, d in judge(sess, o)]
