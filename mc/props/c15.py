"""C15 - JSON round-trips to an equivalent, re-encodable message; the dump is faithful.

(a) every definition x the k=1 payload set (decodable ones), with and without a source identity:
to_json -> strict stdlib json.loads -> from_json -> field-by-field comparison -> both objects
encode to the same bytes (encodable definitions).
(b) dump: every dump-filter configuration x every history up to a depth over a mixed event
alphabet, on a real decoder writing a real file: after close() the file must be exactly the
to_json() text of every returned message that matches the filter, one per line, in order."""
from __future__ import annotations

import datetime as dt
import itertools
import json
import math
import os

from .. import common, payloads, refdb, wire
from .c01 import enumerate_cases
from nmea2000.decoder import NMEA2000Decoder
from nmea2000.encoder import NMEA2000Encoder
from nmea2000.message import NMEA2000Message

ID = "C15"


def strict_loads(text):
    def bad(c):
        raise ValueError(f"non-standard JSON constant {c}")
    return json.loads(text, parse_constant=bad)


def expect_json_value(v):
    if isinstance(v, (bytes, bytearray)):
        return bytes(v).hex()
    if isinstance(v, dt.datetime):
        return v.isoformat()
    if isinstance(v, dt.date):
        return v.isoformat()
    if isinstance(v, dt.time):
        return v.isoformat()
    if isinstance(v, float) and not math.isfinite(v):
        return None
    return v


def safe_json(msg):
    try:
        return msg.to_json()
    except Exception as ex:  # noqa: BLE001
        return f"<to_json raised {type(ex).__name__}>"


def same(a, b):
    if isinstance(a, float) or isinstance(b, float):
        try:
            return float(a) == float(b)
        except (TypeError, ValueError):
            return False
    return a == b and type(a) is type(b) or (a == b and not isinstance(a, bool) and not isinstance(b, bool))


def roundtrip(msg, defn, enc, payload=None):
    """-> list of (kind, facts, detail)"""
    try:
        text = msg.to_json()
    except Exception as ex:  # noqa: BLE001
        return [("to_json_failed", {"error": type(ex).__name__}, f"to_json raised {type(ex).__name__}: {ex}")]
    try:
        plain = strict_loads(text)
    except Exception as ex:  # noqa: BLE001
        return [("invalid_json", {"error": type(ex).__name__}, f"strict parser: {ex}; text {text[:120]}")]
    try:
        back = NMEA2000Message.from_json(text)
    except Exception as ex:  # noqa: BLE001
        return [("from_json_failed", {"error": type(ex).__name__}, f"from_json raised {type(ex).__name__}: {ex}")]
    out = []
    for attr in ("PGN", "id", "source", "destination", "priority"):
        if getattr(back, attr) != getattr(msg, attr) or plain.get(attr) != getattr(msg, attr):
            out.append(("message_attribute_lost", {"attr": attr}, f"{attr}: {getattr(msg, attr)!r} -> {getattr(back, attr)!r}"))
    if len(back.fields) != len(msg.fields):
        out.append(("field_count", {}, f"{len(msg.fields)} fields -> {len(back.fields)}"))
        return out
    for a, b in zip(msg.fields, back.fields):
        if a.id != b.id:
            out.append(("field_id", {"field": a.id}, f"{a.id!r} -> {b.id!r}"))
            continue
        for which in ("value", "raw_value"):
            want = expect_json_value(getattr(a, which))
            got = getattr(b, which)
            if not same(want, got):
                out.append(("field_value_lost", {"field": a.id, "which": which, "type": getattr(a.type, "name", str(a.type))},
                            f"field {a.id} {which}: {getattr(a, which)!r} should read back as {want!r}, got {got!r}"))
    if out or defn is None or not defn.encodable:
        return out
    try:
        e1 = enc.encode_actisense(msg)
    except Exception:  # noqa: BLE001
        return out          # the original itself is not encodable (C09's subject)
    try:
        e2 = enc.encode_actisense(back)
    except Exception as ex:  # noqa: BLE001
        return [("parsed_message_not_encodable", {"error": type(ex).__name__}, f"original encodes to {e1}, parsed message: {type(ex).__name__}: {ex}")]
    if e1 != e2:
        out.append(("encodes_differently", {}, f"original {e1} vs parsed {e2}"))
        return out
    if payload is not None and defn.id == msg.id:
        # ... and those bytes are the ones the message came from (C02's comparison under the field masks, applied to the parsed message)
        from . import c02
        p, n = payload
        try:
            for kind, facts, detail in c02.compare(defn, p, n, c02.encode_payload(enc, back)):
                out.append(("parsed_message_encodes_other_bytes", dict(facts), f"payload {p.to_bytes(n, 'little').hex()[:60]} -> JSON -> parsed -> encoded: {detail}"))
        except Exception:  # noqa: BLE001
            pass
        if out:
            return out
    # the frame-level encoders build a CAN identifier from the addressing: same packets expected (fresh encoders: same counter)
    try:
        b1 = NMEA2000Encoder().encode_ebyte(msg)
    except Exception:  # noqa: BLE001
        return out
    try:
        b2 = NMEA2000Encoder().encode_ebyte(back)
    except Exception as ex:  # noqa: BLE001
        return [("parsed_message_not_encodable", {"error": type(ex).__name__, "format": "ebyte"}, f"original encodes, parsed message: {type(ex).__name__}: {ex}")]
    if list(b1) != list(b2):
        out.append(("encodes_differently", {"format": "ebyte"}, f"EByte packets differ: {[x.hex() for x in b1][:2]} vs {[x.hex() for x in b2][:2]}"))
    return out


def _prefs():
    from nmea2000.consts import PhysicalQuantities as PQ
    return {PQ.TEMPERATURE: "c", PQ.PRESSURE: "bar", PQ.ANGLE: "deg", PQ.SPEED: "kts"}


PREFS = _prefs()
ADDRESSING = [(3, 7, 255), (0, 0, 0), (7, 254, 0), (6, 1, 254), (2, 253, 37), (7, 0, 255)]


def _task_a(args):
    idxs, seed, deep = args
    db = refdb.db()
    plain_dec = NMEA2000Decoder()
    mapped = NMEA2000Decoder(build_network_map=True)
    mapped.decode_tcp(wire.claim_packet(7, wire.iso_name(unique=77, mfr=1855)))
    prefs_dec = NMEA2000Decoder(preferred_units=PREFS)       # messages whose values were converted to the preferred units
    enc = NMEA2000Encoder()
    vios = []
    st = {"cases": 0, "roundtrips": 0, "nontrivial": 0}
    sample = None
    for di in idxs:
        defn = db.defs[di]
        per_def = 0
        for label, p, n in enumerate_cases(defn, 2, 8 if deep else 0, seed, payloads.BASES, k2_bases=("mid",) if deep else ()):
            st["cases"] += 1
            dec = mapped if st["cases"] % 3 == 0 else (prefs_dec if st["cases"] % 3 == 1 and st["cases"] % 2 else plain_dec)
            # addressing varies with the case: the extreme legal priorities, sources and (for addressed PGNs) destinations included
            prio, src, dst = ADDRESSING[(st["cases"] // 3) % len(ADDRESSING)]
            if dec is mapped:
                src = 7
            if ((defn.pgn >> 8) & 0xFF) >= 240:
                dst = 255
            try:
                msg = dec.decode_basic_string(wire.plain_line(prio, defn.pgn, src, dst, p.to_bytes(n, "little")), already_combined=True)
            except Exception:  # noqa: BLE001
                continue
            if msg is None:
                continue
            st["roundtrips"] += 1
            if label[1]:
                st["nontrivial"] += 1
            ddef = db.by_id.get((msg.PGN, msg.id))
            for kind, facts, detail in roundtrip(msg, ddef, enc, (p, n) if dec is not prefs_dec else None):
                per_def += 1
                if per_def <= 20:
                    vios.append({"kind": kind, "facts": dict(facts, definition=msg.id),
                                 "signature": f"{kind}:{defn.pgn}:{msg.id}:{facts.get('field')}:{facts.get('which')}",
                                 "detail": f"[PGN {defn.pgn} {msg.id} payload={p.to_bytes(n, 'little').hex()[:80]} identity={'yes' if dec is mapped else 'no'}{' unit preferences' if dec is prefs_dec else ''}] {detail}",
                                 "case": {"part": "a", "pgn": defn.pgn, "payload_hex": p.to_bytes(n, "little").hex(), "mapped": dec is mapped, "prefs": dec is prefs_dec, "addr": [prio, src, dst]}})
            if sample is None and label[1] and any(isinstance(f.value, (bytes, dt.date, dt.time)) for f in msg.fields):
                sample = {"part": "a", "pgn": defn.pgn, "definition": msg.id, "payload_hex": p.to_bytes(n, "little").hex(), "json": safe_json(msg)[:300]}
    return st, vios, sample


# ------------------------------------------------------------------ part b: dump
FILTER_ENTRIES = [65280, 127250, "furunoHeave", "FURUNOHEAVE", "vesselHeading", "nope"]


def events():
    hd = bytes.fromhex("0010270000ff7ffd")
    ev = {
        "hdg1": wire.ebyte_packet(wire.can_id(2, 127250, 1, 255), hd),
        "hdg2": wire.ebyte_packet(wire.can_id(2, 127250, 2, 255), bytes([9]) + hd[1:]),
        "heave": wire.ebyte_packet(wire.can_id(7, 65280, 9, 255), bytes.fromhex("3f9fdcffffffffff")),
        "prop65280": wire.ebyte_packet(wire.can_id(7, 65280, 9, 255), bytes.fromhex("e598010203040506")),
        "claim1": wire.claim_packet(1, wire.iso_name(unique=5)),
        "bad": wire.ebyte_packet(wire.can_id(2, 127250, 1, 255), bytes.fromhex("00ffff7f7f7f7ffd")),
    }
    # a message with text outside ASCII (the dump file has to hold it as written by to_json)
    ev["text"] = ("acti", wire.actisense_line(6, 255, 1, 126998, payloads.lau("w\u00f3rld \u6e2f", False) + payloads.lau("Hi") + bytes([6, 1]) + "\u00e9\u00fc".encode("utf-8")))
    fr = wire.fast_frames(3, bytes([0x02, 0x00]) + bytes(range(10, 17)))
    ident = wire.can_id(3, 130816, 4, 255)
    ev["f0"] = wire.ebyte_packet(ident, fr[0])
    ev["f1"] = wire.ebyte_packet(ident, fr[1])
    return ev


def matches(cfg, msg):
    """-> True (must be dumped) / False (must not) / None (the property does not say)"""
    if not cfg:
        return True
    if msg.PGN in [e for e in cfg if isinstance(e, int)]:
        return True
    strs = [e for e in cfg if isinstance(e, str)]
    if msg.id in strs:
        return True
    if msg.id.lower() in [s.lower() for s in strs]:
        return None
    return False


EXTRAS = {
    "plain": {},
    "exclude": {"exclude_pgns": [127250, "furunoHeave"]},
    "include": {"include_pgns": ["furunoHeave", 60928, 130816]},
    "units+map": {"preferred_units": "ANGLE=deg", "build_network_map": True},
    "mfr": {"exclude_manufacturer_code": ["Garmin"], "build_network_map": True},
}


def extra_kwargs(name):
    kw = dict(EXTRAS[name])
    if "preferred_units" in kw:
        from nmea2000.consts import PhysicalQuantities as PQ
        kw["preferred_units"] = {PQ.ANGLE: "deg"}
    return kw


def run_dump(cfg, hist, path, evs, extra="plain"):
    if os.path.exists(path):
        os.remove(path)
    dec = NMEA2000Decoder(dump_to_file=path, dump_pgns=list(cfg), **extra_kwargs(extra))
    returned = []
    try:
        for name in hist:
            try:
                m = dec.decode_actisense_string(evs[name][1]) if isinstance(evs[name], tuple) else dec.decode_tcp(evs[name])
            except Exception:  # noqa: BLE001
                m = None
            if m is not None:
                returned.append(m)
    finally:
        dec.close()
    with open(path, "rb") as f:
        content = f.read().decode("utf-8", errors="replace")
    return returned, content


def judge_dump(cfg, returned, content):
    lines = content.split("\n")
    if content and not content.endswith("\n"):
        return [("dump_missing_newline", {}, "file does not end with a newline")]
    lines = lines[:-1] if content else []
    i = 0
    for m in returned:
        want = matches(cfg, m)
        try:
            text = m.to_json()
        except Exception as ex:  # noqa: BLE001
            return [("to_json_failed", {"error": type(ex).__name__, "id": m.id}, f"to_json of returned message {m.PGN} {m.id} raised {type(ex).__name__}: {ex}")]
        if i < len(lines) and lines[i] == text and want is not False:
            i += 1
        elif want is True:
            return [("dump_missing_message", {"id": m.id, "filter": [str(e) for e in cfg]},
                     f"returned message {m.PGN} {m.id} matches the filter {cfg} but is not at line {i} of the dump ({len(lines)} lines)")]
    if i != len(lines):
        return [("dump_extra_line", {"filter": [str(e) for e in cfg]}, f"dump has {len(lines)} lines, {i} accounted for; filter {cfg}")]
    return []


def _task_b(args):
    cfgs, depth, tag = args[:3]
    extra = args[3] if len(args) > 3 else "plain"
    evs = events()
    names = list(evs)
    work = os.path.join(common.WORK, f"c15.{os.getpid()}.{tag}")
    os.makedirs(work, exist_ok=True)
    path = os.path.join(work, "dump.jsonl")
    vios = []
    st = {"runs": 0, "nontrivial": 0, "lines": 0}
    sample = None
    try:
        for cfg in cfgs:
            for d in range(0, depth + 1):
                for hist in itertools.product(names, repeat=d):
                    returned, content = run_dump(cfg, hist, path, evs, extra)
                    st["runs"] += 1
                    st["lines"] += content.count("\n")
                    if len(returned) >= 2:
                        st["nontrivial"] += 1
                    for kind, facts, detail in judge_dump(cfg, returned, content):
                        if len(vios) < 40:
                            vios.append({"kind": kind, "facts": dict(facts, part="b"), "signature": f"{kind}:{cfg}:{facts.get('id')}",
                                         "detail": f"[dump filter={cfg} decoder options={extra} history={list(hist)}] {detail}",
                                         "case": {"part": "b", "filter": list(cfg), "history": list(hist), "extra": extra}})
                    if sample is None and len(returned) >= 2 and cfg:
                        sample = {"part": "b", "filter": [str(e) for e in cfg], "history": list(hist), "returned": [m.id for m in returned],
                                  "dump_lines": content.count("\n")}
    finally:
        try:
            if os.path.exists(path):
                os.remove(path)
            os.rmdir(work)
        except OSError:
            pass
    return st, vios, sample


def _task_e(args):
    """the JSON text carries everything a message holds (time stamp, raw frame as bytes or text, source identity): the
    round trip must hold whichever entry point produced the message"""
    idxs, seed = args
    db = refdb.db()
    enc = NMEA2000Encoder()
    vios = []
    st = {"cases": 0, "roundtrips": 0, "nontrivial": 0}
    for di in idxs:
        defn = db.defs[di]
        for b in ("mid", "max"):
            p, n = payloads.build(defn, payloads.base_assignment(defn, b))
            if n == 0 or n > 223 or (not defn.fast and n > 8):
                continue
            payload = p.to_bytes(n, "little")
            for mapped in (False, True, "prefs"):
                for name, fn in wire.entry_points(defn.pgn, payload, defn.fast, prio=6, src=7, dst=255 if ((defn.pgn >> 8) & 0xFF) >= 240 else 0).items():
                    dec = NMEA2000Decoder(build_network_map=mapped is True, preferred_units=PREFS if mapped == "prefs" else {})
                    if mapped is True:
                        dec.decode_tcp(wire.claim_packet(7, wire.iso_name(unique=77, mfr=1855)))
                    st["cases"] += 1
                    try:
                        msg = fn(dec)
                    except Exception:  # noqa: BLE001
                        continue
                    if msg is None:
                        continue
                    st["roundtrips"] += 1
                    st["nontrivial"] += 1
                    for kind, facts, detail in roundtrip(msg, db.by_id.get((msg.PGN, msg.id)), enc):
                        if len(vios) < 40:
                            vios.append({"kind": kind, "facts": dict(facts, definition=msg.id, entry=name, mechanism="depends_on_entry_point"),
                                         "signature": f"entry:{kind}:{defn.pgn}:{msg.id}:{name}",
                                         "detail": f"[PGN {defn.pgn} {msg.id} payload={payload.hex()[:60]} decoded through {name} identity={'yes' if mapped is True else 'no'}{' unit preferences' if mapped == 'prefs' else ''}] {detail}",
                                         "case": {"part": "e", "pgn": defn.pgn, "definition": defn.id, "payload_hex": payload.hex(), "entry": name, "mapped": mapped}})
    return st, vios, None


def _dispatch(t):
    return {"a": _task_a, "b": _task_b, "e": _task_e}[t[0]](t[1])


def run(ctx):
    db = refdb.db()
    n = len(db.defs)
    order = sorted(range(n), key=lambda i: -len(db.defs[i].fields))
    nb = 40
    buckets = [[] for _ in range(nb)]
    for j, i in enumerate(order):
        buckets[j % nb].append(i)
    tasks = [("a", (b, ctx.seed, ctx.thorough)) for b in buckets if b]
    cfgs = [()] + [(e,) for e in FILTER_ENTRIES] + list(itertools.combinations(FILTER_ENTRIES, 2))
    depth = 4 if ctx.thorough else 3
    for i, c in enumerate(cfgs):
        tasks.append(("b", ([c], depth, i)))
    # the dump together with the other decoder features (filters, unit preferences, network map, manufacturer lists)
    few = [(), (65280,), ("furunoHeave", 127250), ("vesselHeading",)]
    for j, ex in enumerate(e for e in EXTRAS if e != "plain"):
        for i, c in enumerate(few):
            tasks.append(("b", ([c], depth, 100 + 10 * j + i, ex)))
    for j in range(16):
        tasks.append(("e", (list(range(n))[j::16], ctx.seed)))
    results = common.pmap(_dispatch, tasks)
    vios, samples = [], []
    a = {"cases": 0, "roundtrips": 0, "nontrivial": 0}
    b = {"runs": 0, "nontrivial": 0, "lines": 0}
    for t, (st, v, s) in zip(tasks, results):
        vios += v
        tgt = a if t[0] in ("a", "e") else b
        for k in tgt:
            tgt[k] += st[k]
        if s and len([x for x in samples if x["part"] == t[0]]) < 2:
            samples.append(s)
    cov = {
        "states": a["cases"] + b["runs"], "transitions": a["roundtrips"] + b["runs"], "traces_validated_against_impl": a["roundtrips"] + b["runs"],
        "evaluations": a["cases"] + b["runs"], "distinct_nontrivial": a["nontrivial"] + b["nontrivial"],
        "distinct_outcomes": 1 + len({v["kind"] for v in vios}),
        "rule": "(a) one case per payload of the k=1 enumeration over all definitions, every third one decoded with a source identity "
                "attached; non-trivial = a field off base. (b) one run per (dump filter, history); non-trivial = at least two messages returned",
        "samples": samples, "part_a": a, "part_b": dict(b, filter_configurations=len(cfgs), history_depth=depth),
        "bound_completed": f"(a) <=1 deviating field from 5 bases{', <=2 from base mid, every raw of fields <= 8 bits' if ctx.thorough else ''}; (b) all histories up to {depth} events over a 9-event alphabet x {len(cfgs)} filters; (e) bases mid and max of every definition through 6 entry points, with and without identity",
        "exhaustive": True,
    }
    return {"coverage": cov, "violations": vios,
            "assumptions": ["stdlib json in strict mode (no NaN/Infinity) is the independent JSON parser",
                            "a dump-filter id entry that equals the message id only case-insensitively may or may not match (the property does not say)"]}


def replay(ctx, rep):
    c = rep["case"]
    if c["part"] == "a":
        db = refdb.db()
        data = bytes.fromhex(c["payload_hex"])
        if c.get("mapped"):
            dec = NMEA2000Decoder(build_network_map=True)
            dec.decode_tcp(wire.claim_packet(7, wire.iso_name(unique=77, mfr=1855)))
        elif c.get("prefs"):
            dec = NMEA2000Decoder(preferred_units=PREFS)
        else:
            dec = NMEA2000Decoder()
        prio, src, dst = c.get("addr", [3, 7, 255])
        msg = dec.decode_basic_string(wire.plain_line(prio, c["pgn"], src, dst, data), already_combined=True)
        res = roundtrip(msg, db.by_id.get((msg.PGN, msg.id)), NMEA2000Encoder(), (int.from_bytes(data, "little"), len(data)) if not c.get("prefs") else None)
    elif c["part"] == "e":
        db = refdb.db()
        st, v, _ = _task_e(([db.by_id[(c["pgn"], c["definition"])].idx], 0))
        return [x for x in v if x["case"]["entry"] == c["entry"] and x["case"]["mapped"] == c["mapped"] and x["case"]["payload_hex"] == c["payload_hex"]][:1]
    else:
        work = ctx.scratch()
        cfg = tuple(c["filter"])
        returned, content = run_dump(cfg, c["history"], os.path.join(work, "dump.jsonl"), events(), c.get("extra", "plain"))
        res = judge_dump(cfg, returned, content)
    return [{"kind": k, "facts": f, "detail": d, "case": c} for k, f, d in res]
