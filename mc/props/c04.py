"""C04 - fast-packet reassembly exact under interleaving, reordering, duplication, loss.

Explicit-state BFS to a fixed point.  State = (real NMEA2000Decoder, environment).
The environment is S cyclic senders; events: deliver frame 0 of the current
message (once, first), deliver non-first frame j (any order / multiplicity), deliver a late non-first frame of the
previous message while the current one is in progress, sender moves on (drops whatever was not delivered).  Oracle = a set of frames
seen per stream for the current message."""
from __future__ import annotations

import copy

from .. import common, wire, xstate
from nmea2000.decoder import NMEA2000Decoder

ID = "C04"

FALLBACK_IDS = {126720: "0x1ef00ManufacturerProprietaryFastPacketAddressed",
                130816: "0x1ff000x1ffffManufacturerSpecificFastPacketNonAddressed"}


def payload_of(s, m, length):
    """bytes unique per (stream, message) at every position; first two bytes pick
    a manufacturer code no specific definition matches."""
    b = [(17 * s + 29 * m + 7 * p + 3) % 251 + 1 for p in range(max(length, 2))]
    b[0] = 1 + s
    b[1] = 0x00 | (m << 5) & 0xE0   # industry code bits carry the message index too
    return bytes(b[:length])


class Stream:
    __slots__ = ("pgn", "src", "dst", "cycle", "msgs", "frames", "ident")

    def __init__(self, idx, pgn, src, dst, cycle, pad):
        self.pgn, self.src, self.dst, self.cycle = pgn, src, dst, cycle
        self.msgs = [payload_of(idx, m, L) for m, (seq, L) in enumerate(cycle)]
        self.frames = [wire.fast_frames(seq, self.msgs[m], pad) for m, (seq, L) in enumerate(cycle)]
        self.ident = wire.can_id(3, pgn, src, dst)


class Env:
    """per stream: [cur, sent0, got(frozenset), done, stale]"""

    def __init__(self, n):
        self.st = [[0, False, frozenset(), False, False] for _ in range(n)]


class State:
    def __init__(self, n, entry, warm=()):
        self.dec = NMEA2000Decoder()
        # 'warm' configurations: the decoder has already been handed a pre-assembled message of each stream's PGN
        # (a log replay through the Actisense entry point) before the frames start
        for prio, dst, src, pgn, payload in warm:
            self.dec.decode_actisense_string(wire.actisense_line(prio, dst, src, pgn, payload))
        self.env = Env(n)


def observed_payload_int(msg):
    f = {x.id: x for x in msg.fields}
    data = f["data"].value
    return (f["manufacturerCode"].raw_value | (f["reserved_11"].raw_value << 11) | (f["industryCode"].raw_value << 13)
            | (int.from_bytes(data, "big") << 16))


def feed(dec, entry, ident, data):
    if entry == "tcp":
        return dec.decode_tcp(wire.ebyte_packet(ident, data))
    if entry == "usb":
        return dec.decode_usb(wire.usb_packet(ident, data))
    if entry == "yd":
        return dec.decode_yacht_devices_string(wire.yd_line(ident, data))
    if entry == "plain":
        prio, pgn, src, dst = wire.parse_id(ident)
        return dec.decode_basic_string(wire.plain_line(prio, pgn, src, dst, data))
    raise AssertionError(entry)


def make_config(name, streams_spec, pad, entry="tcp"):
    return {"name": name, "streams": streams_spec, "pad": pad, "entry": entry}


def build(config):
    return [Stream(i, *spec, config["pad"]) for i, spec in enumerate(config["streams"])]


def make_model(config):
    streams = build(config)
    entry = config["entry"]
    n = len(streams)

    def enabled(s):
        evs = []
        for i, st in enumerate(streams):
            cur, sent0, got, done, stale = s.env.st[i]
            nfr = len(st.frames[cur])
            if not sent0 and not got:
                evs.append(["f0", i])
            for j in range(1, nfr):
                evs.append(["f", i, j])
            # a late / duplicated continuation frame of the PREVIOUS message of the stream while the current one is being received
            if sent0 and not done and len(st.cycle) > 1:
                prev = (cur - 1) % len(st.cycle)
                if st.cycle[prev][0] != st.cycle[cur][0]:
                    for j in range(1, len(st.frames[prev])):
                        evs.append(["old", i, j])
            evs.append(["next", i])
        return evs

    def step(s, ev):
        kind, i = ev[0], ev[1]
        st = streams[i]
        e = s.env.st[i]
        cur = e[0]
        if kind == "next":
            stale = (e[1] and not e[3]) or (e[4] and not e[1])
            s.env.st[i] = [(cur + 1) % len(st.cycle), False, frozenset(), False, stale]
            return []
        expected = None
        if kind == "old":
            prev = (cur - 1) % len(st.cycle)
            try:
                out = feed(s.dec, entry, st.ident, st.frames[prev][ev[2]])
            except Exception as ex:  # noqa: BLE001
                return [{"kind": "exception", "detail": f"{type(ex).__name__}: {ex}", "facts": {"mechanism": "exception"}}]
            if out is not None:
                return [{"kind": "unexpected_output", "detail": f"stream {i}: a late frame {ev[2]} of the previous message (msg {prev}) made the decoder return a message "
                                                                f"while msg {cur} is being received", "_got": observed_payload_int(out) if out.id == FALLBACK_IDS[st.pgn] else None, "_stream": i}]
            return []
        if kind == "f0":
            j = 0
            e[1] = True
            e[4] = False
            if len(st.frames[cur]) == 1:
                # a fast-packet message that fits into its first frame is complete at once
                expected = int.from_bytes(st.msgs[cur], "little")
                e[3] = True
        else:
            j = ev[2]
            if e[1] and not e[3] and j not in e[2]:
                e[2] = e[2] | {j}
                if len(e[2]) == len(st.frames[cur]) - 1:
                    expected = int.from_bytes(st.msgs[cur], "little")
                    e[3] = True
            elif not e[1]:
                e[2] = e[2] | {j}
        try:
            out = feed(s.dec, entry, st.ident, st.frames[cur][j])
        except Exception as ex:  # noqa: BLE001
            return [{"kind": "exception", "detail": f"{type(ex).__name__}: {ex}", "facts": {"mechanism": "exception"}}]
        if out is None:
            got = None
        else:
            if out.id != FALLBACK_IDS[st.pgn] or out.PGN != st.pgn:
                got = ("wrong-definition", out.id)
            elif (out.source, out.destination) != (st.src, st.dst if st.pgn == 126720 else 255):
                got = ("wrong-addressing", out.source, out.destination)
            else:
                got = observed_payload_int(out)
        if got == expected:
            return []
        return [{"kind": "unexpected_output" if expected is None else ("missing_output" if got is None else "wrong_payload"),
                 "detail": f"stream {i} msg {cur} frame {j}: expected {hex(expected) if expected is not None else None}, "
                           f"got {hex(got) if isinstance(got, int) else got}",
                 "_got": got, "_stream": i}]

    def key(s):
        return common.canon_key([s.dec, s.env.st])

    def nontrivial(s):
        active = sum(1 for e in s.env.st if (e[1] and not e[3]) or e[4])
        stale = any(e[4] for e in s.env.st)
        return active >= 2 or stale

    warm = [(3, st.dst, st.src, st.pgn, st.msgs[0]) for st in streams] if config.get("warm") else ()
    return State(n, entry, warm), enabled, step, key, nontrivial, streams


def run_config(config, max_states):
    init, enabled, step, key, nontrivial, streams = make_model(config)
    def counts(v):
        classify(v, config, streams)
        return v["facts"].get("mechanism") != "same_seq_mix"   # the recorded finding does not stop the search

    res = xstate.bfs(init, enabled, step, key, max_states=max_states, nontrivial=nontrivial, counts=counts)
    return res


def classify(v, config, streams):
    """Decide, from the violating history itself, whether the wrong behaviour is the recorded
    'same sequence counter' defect: the decoder still holds a record of an earlier message of this
    stream that carries the same counter as the current message (no first frame with a different
    counter was accepted in between), so the current first frame was taken for a duplicate and
    frames of the two messages share one buffer."""
    hist = v["case"]["history"]
    v["case"]["config"] = config
    got = v.pop("_got", None)
    i = v.pop("_stream", None)
    facts = {"mechanism": "other"}
    v["facts"] = facts
    if v["kind"] == "exception" or i is None or not (isinstance(got, int) or got is None):
        v["signature"] = f"{v['kind']}:{facts['mechanism']}:{config['name']}"
        return
    st = streams[i]
    # replay the environment for stream i with absolute instance numbers
    inst = 0
    log = {0: {"idx": 0, "f0": False, "frames": set()}}
    for ev in hist:
        if ev[1] != i:
            continue
        if ev[0] == "next":
            inst += 1
            log[inst] = {"idx": inst % len(st.cycle), "f0": False, "frames": set()}
        elif ev[0] == "f0":
            log[inst]["f0"] = True
        elif ev[0] == "old":
            continue
        else:
            log[inst]["frames"].add(ev[2])
    b = inst
    idx_b = log[b]["idx"]
    seq_b = st.cycle[idx_b][0]
    pad = config["pad"]
    # chain: earlier messages carrying the same counter as b, back to (excluding) the last delivered
    # first frame with a different counter (which restarted the buffer)
    chain = []
    for k in range(b - 1, -1, -1):
        same = st.cycle[log[k]["idx"]][0] == seq_b
        if log[k]["f0"] and not same:
            break
        if same:
            chain.append(k)
    stale_record = any(log[k]["f0"] for k in chain)
    allowed_msgs = {log[k]["idx"] for k in chain} | {idx_b}
    if got is None:
        # expected a message, got nothing: the recorded defect if a stale same-counter record exists
        if stale_record:
            facts["mechanism"] = "same_seq_mix"
    else:
        obs_len = max(1, (got.bit_length() + 7) // 8)
        obs = got.to_bytes(obs_len, "little")
        sources = explain(obs, st, allowed_msgs, pad)
        if stale_record and sources is not None:
            facts["mechanism"] = "same_seq_mix"
        elif pad is not None:
            exp = st.msgs[idx_b]
            if obs[:len(exp)] == exp and len(obs) > len(exp) and set(obs[len(exp):]) <= {pad}:
                facts["mechanism"] = "padding_leak"
    v["signature"] = f"{v['kind']}:{facts['mechanism']}:{config['name']}"


def explain(obs, st, allowed_msgs, pad):
    """can the observed payload be written as a concatenation, in increasing frame index, of the
    data parts of frames of the allowed messages (the last part possibly cut short)?  -> set of
    message indices used, or None"""
    parts = {}
    for m in allowed_msgs:
        for j, fr in enumerate(st.frames[m]):
            parts[(m, j)] = bytes(fr[2:] if j == 0 else fr[1:])

    def rec(pos, last_j, used):
        if pos >= len(obs):
            return used
        for (m, j), data in parts.items():
            if j <= last_j or not data:
                continue
            rest = obs[pos:]
            if rest[:len(data)] == data:
                r = rec(pos + len(data), j, used | {m})
                if r is not None:
                    return r
            elif len(rest) < len(data) and data[:len(rest)] == rest:
                return used | {m}            # cut at the announced length
        # trailing zero bytes of the observation are invisible (integer comparison)
        return None
    return rec(0, -1, frozenset())


def configs(ctx):
    A, B = 126720, 130816
    c012 = [(0, 9), (1, 16), (2, 16)]
    c0102 = [(0, 16), (1, 9), (0, 16), (2, 9)]
    c8 = [(k, 16 if k % 2 else 9) for k in range(8)]
    out = []
    for pad in (None, 0xFF, 0x00, 0xFE):
        tag = "short" if pad is None else f"pad{pad:02X}"
        out.append(make_config(f"one-012-{tag}", [(A, 1, 255, c012)], pad))
        out.append(make_config(f"one-0102-{tag}", [(A, 1, 255, c0102)], pad))
    out.append(make_config("one-enc8-short", [(B, 1, 255, c8)], None))
    cshort = [(0, 16), (1, 5), (0, 16), (2, 6)]          # messages that fit into one frame between multi-frame ones
    out.append(make_config("one-single-frame-msgs-short", [(A, 1, 255, cshort)], None))
    out.append(make_config("one-single-frame-msgs-padFF", [(A, 1, 255, cshort)], 0xFF))
    ctiny = [(0, 16), (1, 0), (2, 9), (3, 1)]            # announced lengths 0 and 1: everything after the length byte is padding
    out.append(make_config("one-tiny-msgs-padFF", [(A, 1, 255, ctiny)], 0xFF))
    out.append(make_config("one-tiny-msgs-pad00-usb", [(A, 1, 255, ctiny)], 0x00, "usb"))
    out.append(make_config("two-src-short", [(A, 1, 255, c012), (A, 2, 255, c012)], None))
    out.append(make_config("two-pgn-padFF", [(A, 1, 255, c012), (B, 1, 255, c012)], 0xFF))
    out.append(make_config("two-dst-short", [(A, 1, 1, c0102), (A, 1, 2, c012)], None))
    # two addressed streams whose source and destination digits can be split differently (1|23 and 12|3)
    out.append(make_config("two-streams-digit-split-short", [(A, 1, 23, c012), (A, 12, 3, c012)], None))
    warm = make_config("one-012-short-after-preassembled", [(A, 1, 255, c012)], None)
    warm["warm"] = True
    out.append(warm)
    out.append(make_config("one-012-usb", [(A, 1, 255, c012)], 0xFF, "usb"))
    out.append(make_config("one-0102-yd", [(A, 1, 255, c0102)], None, "yd"))
    out.append(make_config("one-012-plain", [(B, 7, 255, c012)], None, "plain"))
    if ctx.thorough:
        c4 = [(0, 23), (1, 9), (0, 16)]   # 4-frame message in the cycle, wraps 0 -> 0 is illegal so add one
        c4 = [(0, 23), (1, 9), (0, 16), (3, 23)]
        out.append(make_config("one-4frame-short", [(A, 1, 255, c4)], None))
        out.append(make_config("two-src-0102-padFF", [(A, 1, 255, c0102), (A, 2, 255, c0102)], 0xFF))
        out.append(make_config("three-mixed-short", [(A, 1, 255, [(0, 9), (1, 9), (2, 9)]), (A, 2, 255, [(0, 9), (1, 16)]),
                                                     (B, 1, 255, [(0, 9), (1, 9), (0, 9), (2, 9)])], None))
        out.append(make_config("two-src-dst-yd", [(A, 1, 7, c012), (A, 7, 1, c0102)], None, "yd"))
    return out


def _task(args):
    config, max_states = args
    res = run_config(config, max_states)
    return {"name": config["name"], "states": res.states, "transitions": res.transitions, "depth": res.max_depth,
            "closed": res.closed, "cap": res.cap_hit, "nontrivial": res.nontrivial,
            "violations": res.violations, "samples": res.samples[:2]}


def run(ctx):
    cfgs = configs(ctx)
    cap = 1_500_000 if ctx.thorough else 150_000
    results = common.pmap(_task, [(c, cap) for c in cfgs])
    vio = []
    per = {}
    for r in results:
        vio += r["violations"]
        per[r["name"]] = {k: r[k] for k in ("states", "transitions", "depth", "closed", "cap")}
    closed = all(r["closed"] for r in results)
    cov = {
        "states": sum(r["states"] for r in results),
        "transitions": sum(r["transitions"] for r in results),
        "traces_validated_against_impl": sum(r["transitions"] for r in results),
        "evaluations": sum(r["transitions"] for r in results),
        "distinct_nontrivial": sum(r["nontrivial"] for r in results),
        "rule": "BFS states of (real decoder, environment); non-trivial = a state in which two streams have a message "
                "in flight at once or a stream carries a stale partial message from an abandoned earlier message",
        "samples": [{"config": r["name"], "history": h} for r in results[:6] for h in r["samples"][:1]],
        "configs": per,
        "max_depth": max(r["depth"] for r in results),
        "bound_completed": "fixed point (frontier emptied) in every configuration" if closed else "state cap hit, see configs",
        "exhaustive": closed,
        "distinct_outcomes": len({v.get("signature") for v in vio}) + 1,
        "explanation": "every transition calls the real frame-level decode entry point on a deep copy of the real decoder",
    }
    return {"coverage": cov, "violations": vio,
            "assumptions": ["frame 0 of a message is delivered at most once and before its other frames (as the property states)",
                            "consecutive messages of a stream carry different sequence counters",
                            "payload observed through the fallback definitions' fields, compared as integers"]}


def replay(ctx, rep):
    """Plain re-execution of one recorded history: no explorer, one decoder."""
    config = rep["case"]["config"]
    hist = [list(e) for e in rep["case"]["history"]]
    state, _enabled, step, _key, _nt, streams = make_model(config)
    for k, ev in enumerate(hist):
        vs = step(state, ev)
        if vs:
            out = []
            for v in vs:
                v = dict(v)
                v["case"] = {"history": hist[:k + 1]}
                classify(v, config, streams)
                out.append(v)
            return out
    return []
