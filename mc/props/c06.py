"""C06 - every gateway wire format round-trips and obeys its fixed framing.

Exhaustive enumeration: encodable definitions x {min, mid, max, ones} values x addressing grid x
the four formats (EByte, USB, Yacht Devices, Actisense): packets produced by the real encoder are
checked for their fixed framing, fed to the real decoder of that format and the result compared
with the original message; every produced USB packet is corrupted at each of the 18 checked byte
positions with each of the 255 non-zero XOR masks and must be rejected; the concatenation of a
message's packets is re-framed by the matching *client* on the virtual loop (all at once and
one byte at a time)."""
from __future__ import annotations

from fractions import Fraction

from .. import clientkit, common, payloads, refdb, vloop, wire
from ..vloop import it_connect
from nmea2000.decoder import NMEA2000Decoder
from nmea2000.encoder import NMEA2000Encoder

ID = "C06"
FORMATS = ("ebyte", "usb", "yd", "actisense")
CLIENT = {"ebyte": "ebyte", "usb": "waveshare", "yd": "yd", "actisense": "actisense"}


def encode(enc, fmt, msg):
    if fmt == "ebyte":
        return list(enc.encode_ebyte(msg))
    if fmt == "usb":
        return list(enc.encode_usb(msg))
    if fmt == "yd":
        return list(enc.encode_yacht_devices(msg))
    return [enc.encode_actisense(msg)]


def feed(dec, fmt, packet):
    if fmt == "ebyte":
        return dec.decode_tcp(packet)
    if fmt == "usb":
        return dec.decode_usb(packet)
    if fmt == "yd":
        return dec.decode_yacht_devices_string("00:00:00.000 R " + packet.decode().strip())
    return dec.decode_actisense_string("A000000.000 " + packet)


def wire_bytes(fmt, packets):
    """what a gateway would put on the link for these packets (receive-side form)"""
    if fmt in ("ebyte", "usb"):
        return b"".join(packets)
    if fmt == "yd":
        return b"".join(b"00:00:00.000 R " + p for p in packets)
    return ("A000000.000 " + packets[0] + "\r\n").encode()


def framing(fmt, packets):
    out = []
    for i, p in enumerate(packets):
        if fmt == "ebyte":
            if len(p) != 13:
                out.append(("ebyte_packet_size", {"size": len(p)}, f"EByte packet {i} is {len(p)} bytes"))
        elif fmt == "usb":
            if len(p) != 20:
                out.append(("usb_packet_size", {"size": len(p)}, f"USB packet {i} is {len(p)} bytes"))
            elif p[:2] != b"\xaa\x55":
                out.append(("usb_header", {}, f"USB packet {i} starts with {p[:2].hex()}"))
            elif p[19] != (sum(p[2:19]) & 0xFF):
                out.append(("usb_checksum", {}, f"USB packet {i}: checksum byte {p[19]:#x}, sum of bytes 2..18 is {sum(p[2:19]) & 0xFF:#x}"))
            elif any(p[10 + p[9]:18]):
                out.append(("usb_padding", {}, f"USB packet {i}: data beyond the length byte is not zero: {p.hex()}"))
        elif fmt == "yd":
            if not p.endswith(b"\r\n") or b"\r" in p[:-2] or b"\n" in p[:-2]:
                out.append(("yd_line_ending", {}, f"Yacht Devices packet {i} is not exactly one CR LF terminated line: {p!r}"))
    return out


def same_message(orig, got, pgn, fmt=None):
    if got is None:
        return "decoder returned nothing"
    pdu1 = ((pgn >> 8) & 0xFF) < 240
    # CAN-identifier formats cannot carry a destination for broadcast (PDU2) PGNs; the Actisense header carries it verbatim
    want_dst = orig.destination if (pdu1 or fmt == "actisense") else 255
    want_hdr = (orig.PGN, orig.id, orig.source, want_dst, orig.priority)
    got_hdr = (got.PGN, got.id, got.source, got.destination, got.priority)
    if want_hdr != got_hdr:
        return f"header {got_hdr} != {want_hdr}"
    if len(orig.fields) != len(got.fields):
        return f"{len(got.fields)} fields != {len(orig.fields)}"
    for a, b in zip(orig.fields, got.fields):
        if a.id != b.id:
            return f"field id {b.id} != {a.id}"
        va, vb = a.value, b.value
        if isinstance(va, float) and isinstance(vb, (int, float)) and va != vb:
            if abs(va - vb) > max(abs(va), 1.0) * 1e-12:
                return f"field {a.id}: {vb!r} != {va!r}"
        elif common.val_view(va) != common.val_view(vb):
            return f"field {a.id}: {vb!r} != {va!r}"
    return None


def _task_codec(args):
    idxs, grid, corrupt_every = args
    db = refdb.db()
    vios = []
    st = {"roundtrips": 0, "packets": 0, "corruptions": 0, "nontrivial": 0, "short_frames": 0}
    sample = None
    ref = NMEA2000Decoder()
    usb_seen = 0
    shared = {}
    filler = clientkit.gnss_message()
    filler.source, filler.destination = 200, 255
    for di in idxs:
        defn = db.defs[di]
        for base in ("min", "mid", "max", "ones"):
            p, nb = payloads.build(defn, payloads.base_assignment(defn, base))
            try:
                m0 = ref.decode_basic_string(wire.plain_line(3, defn.pgn, 5, 255, p.to_bytes(nb, "little")), already_combined=True)
            except Exception:  # noqa: BLE001
                continue
            if m0 is None or m0.id != defn.id:
                continue
            for (prio, src, dst) in grid:
                m0.priority, m0.source, m0.destination = prio, src, dst
                for fmt in FORMATS:
                    enc, dec = NMEA2000Encoder(), NMEA2000Decoder()
                    try:
                        packets = encode(enc, fmt, m0)
                    except Exception as ex:  # noqa: BLE001
                        # a decoded in-range message of an encodable definition that the encoder refuses: only fields wider than
                        # 48 bits / floats may fail here (values beyond float precision; C02's subject), anything else is a finding
                        if not any((f.bits or 0) > 48 or f.type == "FLOAT" for f in defn.fields) and len(vios) < 60:
                            vios.append({"kind": "roundtrip", "facts": {"format": fmt, "definition": defn.id, "mechanism": "encoder_refuses_decoded_message"},
                                         "signature": f"encfail:{fmt}:{defn.pgn}:{defn.id}",
                                         "detail": f"[PGN {defn.pgn} {defn.id} base={base} prio={prio} src={src} dst={dst} {fmt}] the encoder refuses the decoded message: {type(ex).__name__}: {ex}",
                                         "case": {"part": "codec", "pgn": defn.pgn, "definition": defn.id, "base": base, "addr": [prio, src, dst], "format": fmt}})
                        break
                    st["roundtrips"] += 1
                    st["packets"] += len(packets)
                    if len(packets) > 1 or (defn.length or 8) < 8:
                        st["nontrivial"] += 1
                    problems = framing(fmt, packets)
                    got = None
                    err = None
                    if not problems:
                        try:
                            for pk in packets:
                                got = feed(dec, fmt, pk)
                        except Exception as ex:  # noqa: BLE001
                            err = f"{type(ex).__name__}: {ex}"
                        why = err or same_message(m0, got, defn.pgn, fmt)
                        if why:
                            problems.append(("roundtrip", {"format": fmt}, why))
                    for kind, facts, detail in problems:
                        if len(vios) < 60:
                            vios.append({"kind": kind, "facts": dict(facts, format=fmt, definition=defn.id),
                                         "signature": f"{kind}:{fmt}:{defn.pgn}:{defn.id}",
                                         "detail": f"[PGN {defn.pgn} {defn.id} base={base} prio={prio} src={src} dst={dst} {fmt}] {detail}",
                                         "case": {"part": "codec", "pgn": defn.pgn, "definition": defn.id, "base": base, "addr": [prio, src, dst], "format": fmt}})
                    if fmt == "usb" and not problems:
                        for pk in packets:
                            usb_seen += 1
                            if usb_seen % corrupt_every:
                                continue
                            bad = corruptions(dec, pk)
                            st["corruptions"] += 18 * 255
                            if bad and len(vios) < 60:
                                pos, mask = bad[0]
                                vios.append({"kind": "corruption_accepted", "facts": {"position": pos, "format": "usb"},
                                             "signature": f"corrupt:{pos}",
                                             "detail": f"[USB packet {pk.hex()}] byte {pos} XOR {mask:#04x} still accepted by decode_usb ({len(bad)} of 4590 corruptions accepted)",
                                             "case": {"part": "corrupt", "packet_hex": pk.hex(), "position": pos, "mask": mask}})
                    # the same message once more through ONE long-lived encoder / decoder pair per format (a gateway client keeps
                    # one of each for its whole life): what they produce must not depend on what they handled before
                    if not problems and (prio, src, dst) == grid[0] and base in ("mid", "max"):
                        se, sd = shared.setdefault(fmt, (NMEA2000Encoder(), NMEA2000Decoder()))
                        why = None
                        try:
                            pk2 = encode(se, fmt, m0)
                            got2 = None
                            for pk in pk2:
                                got2 = feed(sd, fmt, pk)
                            why = same_message(m0, got2, defn.pgn, fmt)
                        except Exception as ex:  # noqa: BLE001
                            why = f"{type(ex).__name__}: {ex}"
                        if not why and defn.fast and base == "mid":
                            # ... and once more after seven other fast-packet messages from the same encoder: the message then carries
                            # the same sequence counter as its predecessor on the stream
                            try:
                                for _ in range(7):
                                    for pk in encode(se, fmt, filler):
                                        feed(sd, fmt, pk)
                                got3 = None
                                for pk in encode(se, fmt, m0):
                                    got3 = feed(sd, fmt, pk)
                                why = same_message(m0, got3, defn.pgn, fmt)
                                if why:
                                    why = "sent again eight fast-packet messages later (same sequence counter): " + why
                            except Exception as ex:  # noqa: BLE001
                                why = f"sent again eight fast-packet messages later: {type(ex).__name__}: {ex}"
                        st["roundtrips"] += 1
                        if why and len(vios) < 60:
                            vios.append({"kind": "roundtrip", "facts": {"format": fmt, "definition": defn.id, "mechanism": "depends_on_history"},
                                         "signature": f"shared:{fmt}:{defn.pgn}:{defn.id}",
                                         "detail": f"[PGN {defn.pgn} {defn.id} base={base} prio={prio} src={src} dst={dst} {fmt}, on an encoder/decoder pair that "
                                                   f"handled other messages before (fresh ones round-trip)] {why}",
                                         "case": {"part": "codec", "pgn": defn.pgn, "definition": defn.id, "base": base, "addr": [prio, src, dst], "format": fmt, "shared": True}})
                    if sample is None and fmt == "usb" and len(packets) > 1:
                        sample = {"part": "codec", "pgn": defn.pgn, "definition": defn.id, "format": fmt, "packets": [x.hex() for x in packets[:2]]}
    return st, vios, sample


def corruptions(dec, pk):
    bad = []
    b = bytearray(pk)
    for pos in range(2, 20):
        orig = b[pos]
        for mask in range(1, 256):
            b[pos] = orig ^ mask
            try:
                r = dec.decode_usb(bytes(b))
            except Exception:  # noqa: BLE001
                r = None
            if r is not None:
                bad.append((pos, mask))
        b[pos] = orig
    return bad


# ------------------------------------------------------------------ re-framing by the clients
def it_feed_next(sess):
    i = sess.chunk_i
    if i >= len(sess.chunks):
        return True
    c = sess.gw.live_conn()
    if c is None:
        return False
    sess.chunk_i += 1
    sess.env(c.transport.env_feed, sess.chunks[i])
    return True


def client_receive(kind, chunks):
    s = vloop.Session(kind=kind, script=[it_connect] + [it_feed_next] * len(chunks))
    s.chunks = list(chunks)
    s.chunk_i = 0
    o = s.run()
    return s, o


def _task_reframe(args):
    idxs, = args
    db = refdb.db()
    vios = []
    st = {"sessions": 0, "nontrivial": 0}
    ref = NMEA2000Decoder()
    sample = None
    for di in idxs:
        defn = db.defs[di]
        for base in ("mid", "ones"):
            p, nb = payloads.build(defn, payloads.base_assignment(defn, base))
            try:
                m0 = ref.decode_basic_string(wire.plain_line(3, defn.pgn, 5, 255, p.to_bytes(nb, "little")), already_combined=True)
            except Exception:  # noqa: BLE001
                continue
            if m0 is None or m0.id != defn.id:
                continue
            m0.priority, m0.source, m0.destination = 3, 5, 255
            # two messages back to back: the second one only arrives intact if the first was framed exactly
            for fmt in FORMATS:
                enc = NMEA2000Encoder()
                try:
                    pk1 = encode(enc, fmt, m0)
                    pk2 = encode(enc, fmt, m0)
                except Exception:  # noqa: BLE001
                    break
                stream = wire_bytes(fmt, pk1) + wire_bytes(fmt, pk2)
                for mode in ("whole", "bytes"):
                    chunks = [stream] if mode == "whole" else [stream[i:i + 1] for i in range(len(stream))]
                    if mode == "bytes" and len(stream) > 400:
                        chunks = [stream[i:i + 3] for i in range(0, len(stream), 3)]
                    s, o = client_receive(CLIENT[fmt], chunks)
                    st["sessions"] += 1
                    if len(pk1) > 1 or (defn.length or 8) < 8:
                        st["nontrivial"] += 1
                    got = o.received
                    why = None
                    if o.end_reason != "quiescent" or [n for _, n in o.status] != ["CONNECTED"]:
                        why = f"session ended {o.end_reason}, status {o.status}"
                    elif len(got) != 2:
                        why = f"client delivered {len(got)} messages for two back-to-back messages of {len(pk1)} packet(s) each"
                    else:
                        exp = common.msg_view(m0)
                        for t, v in got:
                            if (v[0], v[1], v[4], v[5], v[6]) != (exp[0], exp[1], exp[4], exp[5], exp[6]) or [f[0] for f in v[7]] != [f[0] for f in exp[7]]:
                                why = f"delivered message differs: {(v[0], v[1], v[4], v[5], v[6])} vs {(exp[0], exp[1], exp[4], exp[5], exp[6])}"
                    if why and len(vios) < 40:
                        vios.append({"kind": "client_reframing", "facts": {"format": fmt, "definition": defn.id, "mode": mode},
                                     "signature": f"reframe:{fmt}:{defn.pgn}:{defn.id}",
                                     "detail": f"[PGN {defn.pgn} {defn.id} base={base} {fmt} client, stream {mode}] {why}",
                                     "case": {"part": "reframe", "pgn": defn.pgn, "definition": defn.id, "base": base, "format": fmt, "mode": mode}})
                    if sample is None and len(pk1) > 1 and mode == "bytes":
                        sample = {"part": "reframe", "pgn": defn.pgn, "definition": defn.id, "format": fmt, "stream_bytes": len(stream), "delivered": len(got)}
    return st, vios, sample


def _dispatch(t):
    return _task_codec(t[1]) if t[0] == "codec" else _task_reframe(t[1])


def run(ctx):
    db = refdb.db()
    enc_defs = [d.idx for d in db.defs if d.encodable]
    full = [(pr, s, d) for pr in (0, 3, 7) for s in (0, 1, 254) for d in (0, 37, 255)]
    grid = full if ctx.thorough else [full[i] for i in (0, 4, 8, 13, 17, 18, 22, 26, 10)]
    tasks = []
    for i in range(0, len(enc_defs), 6):
        tasks.append(("codec", (enc_defs[i:i + 6], grid, 1 if ctx.thorough else 9)))
    for i in range(0, len(enc_defs), 6):
        tasks.append(("reframe", (enc_defs[i:i + 6],)))
    results = common.pmap(_dispatch, tasks)
    vios, samples = [], []
    tot = {"roundtrips": 0, "packets": 0, "corruptions": 0, "nontrivial": 0, "sessions": 0}
    for t, (st, v, s) in zip(tasks, results):
        vios += v
        for k in st:
            if k in tot:
                tot[k] += st[k]
        if s and len([x for x in samples if x["part"] == s["part"]]) < 2:
            samples.append(s)
    total = tot["roundtrips"] + tot["corruptions"] + tot["sessions"]
    cov = {
        "states": tot["roundtrips"] + tot["sessions"], "transitions": total, "traces_validated_against_impl": total, "evaluations": total,
        "distinct_nontrivial": tot["nontrivial"], "distinct_outcomes": 1 + len({v["kind"] for v in vios}),
        "rule": "round trips = (definition, base values, addressing, format); non-trivial = multi-packet message or payload shorter than "
                "8 bytes; corruptions = 18 positions x 255 masks per checked USB packet; sessions = client re-framing runs",
        "samples": samples, "totals": tot, "encodable_definitions": len(enc_defs), "addressing_grid": len(grid),
        "bound_completed": f"{len(grid)} addressings x 4 base value sets x 4 formats; corruption sweep on every {'USB packet' if ctx.thorough else '9th USB packet'}; "
                           "bases mid and max again on one long-lived encoder/decoder pair per format; client re-framing of two back-to-back messages, whole and byte-by-byte, bases mid and ones",
        "exhaustive": True,
    }
    return {"coverage": cov, "violations": vios,
            "assumptions": ["text formats get their receive-side timestamp token from the harness ('A000000.000 ', '00:00:00.000 R ')",
                            "the message compared is the decode of the base payload (what the encoder was given)"]}


def replay(ctx, rep):
    c = rep["case"]
    if c["part"] == "corrupt":
        pk = bytearray(bytes.fromhex(c["packet_hex"]))
        pk[c["position"]] ^= c["mask"]
        try:
            r = NMEA2000Decoder().decode_usb(bytes(pk))
        except Exception:  # noqa: BLE001
            r = None
        return [{"kind": "corruption_accepted", "facts": {}, "detail": "still accepted", "case": c}] if r is not None else []
    db = refdb.db()
    idx = db.by_id[(c["pgn"], c["definition"])].idx
    if c["part"] == "codec" and c.get("shared"):
        sib = [d.idx for d in db.by_pgn[c["pgn"]] if d.encodable]
        st, v, s = _task_codec((sib, [tuple(c["addr"])], 10 ** 9))
        return [x for x in v if x["case"].get("shared") and x["case"]["definition"] == c["definition"] and x["case"].get("format") == c["format"]][:1]
    if c["part"] == "codec":
        st, v, s = _task_codec(([idx], [tuple(c["addr"])], 10 ** 9))
    else:
        st, v, s = _task_reframe(([idx],))
    return [x for x in v if x["case"].get("format") == c["format"]][:2]
