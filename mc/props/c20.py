"""C20 - serial (USB) stream resynchronises after noise, buffering bounded.

(a) stateless exploration of the real Waveshare client on the virtual loop: all streams up to
a length over {valid packets, corrupted packets, truncated packets, noise runs} x segmentations;
(b) explicit-state BFS (state = bytes the client holds back, found by walking its object
graph) over chunk sequences: the space must close with every state's pending total <= 60."""
from __future__ import annotations

import collections
import itertools

from .. import clientkit, common, vloop, wire
from ..vloop import it_connect
from nmea2000.decoder import NMEA2000Decoder

ID = "C20"
KIND = "waveshare"
PENDING_BOUND = 60
MARK = b"\xaa\x55"


def packet(sid):
    return wire.usb_packet(wire.can_id(2, 127250, 1 + sid % 3, 255), clientkit.heading_data(sid, 10000 + 3 * sid))


def packet_with(sid, heading_raw):
    return wire.usb_packet(wire.can_id(2, 127250, 1 + sid % 3, 255), clientkit.heading_data(sid, heading_raw))


def items(seed=0):
    p1, p2, p3 = packet(10), packet(11), packet(12)
    # a valid packet whose last (checksum) byte is 0xAA: followed by noise that starts with 0x55 the
    # stream shows 'AA 55' across the packet end although neither the packet nor the noise contains it
    p4 = next(packet_with(sid, hr) for sid in range(1, 250) for hr in (10000, 20000, 30000)
              if packet_with(sid, hr)[19] == 0xAA and MARK not in packet_with(sid, hr)[2:])
    for p in (p1, p2, p3):
        assert MARK not in p[2:], "valid packets must not contain the marker after the header"
        assert not p.endswith(b"\xaa")
    mf = lambda n, k: bytes(((i * 37 + k) % 160) + 1 for i in range(n))   # values 1..160: never 0xAA
    n21 = bytearray(mf(21, 5))
    n21[3], n21[4], n21[10], n21[12] = 0x55, 0xAA, 0xAA, 0x55                # both bytes present, never as AA 55
    assert MARK not in bytes(n21)
    c1d = bytearray(p1)
    c1d[12] ^= 0x01
    c1c = bytearray(p1)
    c1c[19] ^= 0x80
    it = collections.OrderedDict()
    it["P1"], it["P2"], it["P3"], it["P4"] = p1, p2, p3, p4
    # a short frame (3 data bytes, ISO Request): the 5 padding bytes and the reserved byte are covered by the checksum too
    s1 = wire.usb_packet(wire.can_id(6, 59904, 7, 255), bytes.fromhex("00ee00"))
    assert MARK not in s1[2:] and not s1.endswith(b"\xaa")
    it["S1"] = s1
    cpad = bytearray(s1)
    cpad[15] ^= 0x20            # corruption inside the padding of the short frame
    it["CSp"] = bytes(cpad)
    cres = bytearray(p2)
    cres[18] ^= 0x04            # corruption of the reserved byte
    it["CSr"] = bytes(cres)
    it["C1d"], it["C1c"] = bytes(c1d), bytes(c1c)
    it["T1"], it["T7"], it["T19"] = p1[:19], p1[:13], p1[:1]
    it["M7"] = p1[:8] + p1[15:]
    it["N1"] = b"\x00"
    it["N19"], it["N20"], it["N21"], it["N150"] = mf(19, 1), mf(20, 2), bytes(n21), mf(150, 3)
    it["NM"] = b"\x01\xaa\x55\x02\x03"
    it["NA"] = b"\x01\x02\xaa"
    it["N55AA"] = b"\x55\xaa"
    it["N55"] = b"\x55\x01\x02"
    # well-framed packet (valid header and checksum) that makes the decoder raise: fast-packet PGN without data
    it["RZ"] = wire.usb_packet(wire.can_id(3, 130816, 1, 255), b"")
    sv = common.seeded_values(seed, 1, 8 * 23, "c20noise")[0].to_bytes(23, "big")
    it["NS"] = sv                                                           # seeded 'arbitrary' noise
    return it


VALID = ("P1", "P2", "P3", "P4", "S1")


def pending_bytes(client):
    """bytes/bytearray reachable from the client's own attributes (library objects of the
    ioclient module and plain containers only; decoder, encoder and asyncio objects excluded)."""
    total, seen = 0, set()
    stack = [v for v in vars(client).values()]
    while stack:
        x = stack.pop()
        if id(x) in seen:
            continue
        seen.add(id(x))
        if isinstance(x, (bytes, bytearray, memoryview)):
            total += len(x)
        elif isinstance(x, (list, tuple, set, frozenset, collections.deque)):
            stack.extend(x)
        elif isinstance(x, dict):
            stack.extend(x.values())
        elif type(x).__module__ == "nmea2000.ioclient" and hasattr(x, "__dict__"):
            stack.extend(vars(x).values())
    return total


def it_feed_next(sess):
    i = sess.chunk_i
    if i > 0:
        sess.pending_log.append(pending_bytes(sess.client))
    if i >= len(sess.chunks):
        return True
    c = sess.gw.live_conn()
    if c is None:
        return False
    sess.chunk_i += 1
    sess.env(c.transport.env_feed, sess.chunks[i])
    return True


def run_stream(chunks):
    s = vloop.Session(kind=KIND, script=[it_connect] + [it_feed_next] * (len(chunks) + 1))
    s.chunks = list(chunks)
    s.chunk_i = 0
    s.pending_log = []
    o = s.run()
    return s, o


def judge(seq, its, sess, o, plan):
    bad = sorted(k for k in ("livelock", "watchdog", "busy_loop") if o.flags.get(k))
    if bad or o.end_reason != "quiescent":
        return [("hang", {"end": o.end_reason}, f"execution ended with {o.end_reason} {o.flags}")]
    if [n for _, n in o.status] != ["CONNECTED"]:
        return [("connection_disturbed", {}, f"status trace {o.status}")]
    out = []
    got = [v for _, v in o.received]
    # is there an alignment in which got is an in-order sub-list of the valid packets that
    # contains every 'must' packet?
    import functools

    @functools.lru_cache(maxsize=None)
    def ok(i, j, prev_lost):
        if i == len(plan):
            return j == len(got)
        if j < len(got) and plan[i][0] == got[j] and ok(i + 1, j + 1, False):
            return True
        # may be lost: first packet after a disturbance that contains the marker -- where the bytes of a
        # packet that was itself lost count as part of the disturbance if noise follows them (its header
        # is a marker; its tail plus the noise can form another one)
        may = (not plan[i][1]) or (prev_lost and plan[i][2])
        return may and ok(i + 1, j, True)
    if not ok(0, 0, False):
        views = [p[0] for p in plan]
        extra = [g for g in got if g not in views]
        if extra or len(got) > len(plan):
            out.append(("unexpected_delivery", {}, f"delivered message(s) that match no valid packet in order (corrupted packet "
                        f"accepted, duplicate or reordering): delivered sids {[g[7][0][4] for g in got]}, valid sids {[v[7][0][4] for v in views]}"))
        else:
            out.append(("packet_lost", {"delivered": len(got), "of": len(plan)},
                        f"a valid packet that follows marker-free input (or is not the first after a disturbance) was not delivered: "
                        f"delivered sids {[g[7][0][4] for g in got]}, valid sids {[v[7][0][4] for v in views]}, must {[p[1] for p in plan]}"))
    mx = max(sess.pending_log) if sess.pending_log else 0
    if mx > PENDING_BOUND:
        out.append(("buffer_unbounded", {"pending": mx}, f"client holds back {mx} bytes after a read (bound {PENDING_BOUND})"))
    return out


def view_of(dec, pkt):
    return common.msg_view(dec.decode_usb(pkt))


def make_plan(seq, its):
    """valid packets in order with a 'must deliver' flag: False only for the first valid packet
    after a disturbance (maximal run of non-valid items) that contains the start marker."""
    dec = NMEA2000Decoder()
    plan, run, have_run = [], b"", False
    for name in seq:
        if name in VALID:
            must = (MARK not in run) if have_run else True
            plan.append((common.msg_view(dec.decode_usb(its[name])), must, have_run))
            run, have_run = b"", False
        else:
            # a disturbance may also *end* with 0xAA and be followed by a packet: 'AA AA 55' is still found
            run += its[name]
            have_run = True
    return plan


def segmentations(L, level):
    segs = [(), tuple(range(7, L, 7)), tuple(range(33, L, 33)), tuple(range(100, L, 100))]
    if L <= (64 if level < 2 else 200):
        segs.append(tuple(range(1, L)))
    if level >= 1:
        segs += [(c,) for c in range(1, L)]
    if level >= 2 and L <= 45:
        segs += list(itertools.combinations(range(1, L), 2))
    return list(dict.fromkeys(segs))


def split(stream, cuts):
    out, prev = [], 0
    for c in cuts:
        out.append(stream[prev:c])
        prev = c
    out.append(stream[prev:])
    return [x for x in out if x]


def _task_a(args):
    seqs, level, seed = args
    its = items(seed)
    vios, runs, nontriv, outcomes = [], 0, 0, set()
    sample = None
    for seq in seqs:
        stream = b"".join(its[n] for n in seq)
        plan = make_plan(seq, its)
        for cuts in segmentations(len(stream), level):
            s, o = run_stream(split(stream, cuts))
            runs += 1
            if any(n not in VALID for n in seq) and any(n in VALID for n in seq):
                nontriv += 1
            outcomes.add((len(o.received), max(s.pending_log) if s.pending_log else 0))
            for k, f, d in judge(seq, its, s, o, plan):
                vios.append({"kind": k, "facts": dict(f, part="a"), "signature": f"a:{k}:{seq}",
                             "detail": f"[stream={list(seq)} cuts={list(cuts)[:5]}{'...' if len(cuts) > 5 else ''}] {d}",
                             "case": {"part": "a", "stream": list(seq), "cuts": list(cuts), "seed": seed}})
            if sample is None and len(seq) >= 2 and cuts:
                sample = {"part": "a", "stream": list(seq), "cuts": list(cuts)[:8], "delivered": len(o.received),
                          "must": [p[1] for p in plan], "max_pending": max(s.pending_log) if s.pending_log else 0}
        if len(vios) > 200:
            break
    return {"runs": runs, "nontrivial": nontriv, "outcomes": len(outcomes), "vios": vios, "sample": sample, "streams": len(seqs)}


# ------------------------------------------------------------------ part b
def chunk_alphabet():
    p1 = packet(10)
    mf = lambda n, k: bytes(((i * 37 + k) % 160) + 1 for i in range(n))
    return collections.OrderedDict([
        ("P1", p1), ("P1a", p1[:10]), ("P1b", p1[10:]), ("n00", b"\x00"), ("nAA", b"\xaa"), ("n55", b"\x55"),
        ("n19", mf(19, 1)), ("n100", mf(100, 3)), ("n100AA", mf(99, 4) + b"\xaa"), ("nM", b"\x07\xaa\x55\x08"),
    ])


def held_back(client):
    """canonical content of everything the client holds back (for state merging)"""
    total, seen, blobs = 0, set(), []
    stack = [v for v in vars(client).values()]
    while stack:
        x = stack.pop()
        if id(x) in seen:
            continue
        seen.add(id(x))
        if isinstance(x, (bytes, bytearray, memoryview)):
            blobs.append(bytes(x))
        elif isinstance(x, (list, tuple, set, frozenset, collections.deque)):
            stack.extend(x)
        elif isinstance(x, dict):
            stack.extend(x.values())
        elif type(x).__module__ == "nmea2000.ioclient" and hasattr(x, "__dict__"):
            stack.extend(vars(x).values())
    return tuple(sorted(blobs))


def run_b(first, depth, repeat):
    """BFS below the one-chunk history [first] down to `depth` chunks, merging histories that leave
    the client holding back identical bytes (same future); plus, from every state found, every
    chunk repeated `repeat` times (growth along a lasso)."""
    alpha = chunk_alphabet()
    names = list(alpha)
    vios = []
    stats = {"states": 0, "transitions": 0, "max_depth": 0, "max_pending": 0, "lassos": 0}
    sample = [None]

    def execute(hist):
        s, o = run_stream([alpha[n] for n in hist])
        stats["transitions"] += 1
        pend = max(s.pending_log) if s.pending_log else 0
        stats["max_pending"] = max(stats["max_pending"], pend)
        bad = sorted(k for k in ("livelock", "watchdog", "busy_loop") if o.flags.get(k))
        if bad or o.end_reason != "quiescent" or [x for _, x in o.status] != ["CONNECTED"]:
            vios.append({"kind": "hang_or_disconnect", "facts": {"part": "b"}, "signature": "b:hang",
                         "detail": f"[chunks={hist}] end={o.end_reason} status={o.status}", "case": {"part": "b", "chunks": hist}})
            return None
        if pend > PENDING_BOUND:
            vios.append({"kind": "buffer_unbounded", "facts": {"part": "b", "pending": pend}, "signature": f"b:unbounded:{hist[-1]}",
                         "detail": f"[chunks={hist[:8]}{'...' if len(hist) > 8 else ''} ({len(hist)} chunks)] client holds back {pend} bytes after a read (bound {PENDING_BOUND})",
                         "case": {"part": "b", "chunks": hist}})
            return None
        return held_back(s.client)

    k0 = execute([first])
    if k0 is None:
        return dict(stats, closed=False, vios=vios, sample=None)
    seen = {k0: [first]}
    stats["states"] = 1
    frontier = collections.deque([[first]])
    while frontier and len(vios) < 20:
        hist = frontier.popleft()
        for n in names:
            lasso = hist + [n] * repeat
            stats["lassos"] += 1
            execute(lasso)
        if len(hist) >= depth:
            continue
        for n in names:
            h2 = hist + [n]
            k = execute(h2)
            if k is None or k in seen:
                continue
            seen[k] = h2
            stats["states"] += 1
            stats["max_depth"] = max(stats["max_depth"], len(h2))
            sample[0] = {"part": "b", "chunks": h2, "held_back_bytes": sum(len(b) for b in k)}
            frontier.append(h2)
    return dict(stats, closed=not frontier and len(vios) < 20, vios=vios, sample=sample[0])


def _task_b(args):
    return run_b(*args)


# ------------------------------------------------------------------ part c
def run_c(head, how, tail_chunks):
    """connection 0 receives `head` and is dropped (EOF / reset); connection 1 receives a clean stream"""
    def feed_conn1(chunk):
        def item(sess):
            if len(sess.gw.conns) < 2 or sess.client.state != vloop.State.CONNECTED:
                return False
            c = sess.gw.conns[1]
            if not c.alive or c.eof_sent:
                return True
            sess.pending_log.append(pending_bytes(sess.client))
            sess.env(c.transport.env_feed, chunk)
            return True
        return item
    drop = (lambda sess: (vloop.sp_eof(sess) or True)) if how == "eof" else (lambda sess: (vloop.sp_reset(sess) or True))

    def final(sess):
        sess.pending_log.append(pending_bytes(sess.client))
        return True
    s = vloop.Session(kind=KIND, script=[it_connect, vloop.it_feed(head, 0), drop] + [feed_conn1(c) for c in tail_chunks] + [final])
    s.pending_log = []
    o = s.run()
    return s, o


def _task_c(args):
    """what the old connection left half received is not part of the new connection's stream: a clean stream on the
    new connection is delivered completely and exactly, and nothing that was never sent whole is delivered"""
    seed, = args
    its = items(seed)
    dec = NMEA2000Decoder()
    heads = {"P1+part of P2": its["P1"], "noise+part of P2": its["N21"], "part of P2": b""}
    tail_names = ["P3", "P1", "S1", "P4"]
    tail = b"".join(its[n] for n in tail_names)
    exp_tail = [view_of(dec, its[n]) for n in tail_names]
    # a left-over that, glued to the first bytes of the new stream, would pass the checksum: 12 bytes of a packet whose
    # remaining 8 bytes equal those of the new connection's first packet (same data bytes 6..7, reserved, checksum adjusted)
    vios, runs, outcomes = [], 0, set()
    sample = None
    victims = {"P2": its["P2"]}
    # a left-over whose first 12 bytes, glued to the first 8 bytes of the new stream, would pass the checksum test
    p3 = its["P3"]
    g = bytearray(its["P2"][:12])
    g[5] = (p3[7] - sum(g[2:5]) - sum(g[6:12]) - sum(p3[0:7])) & 0xFF
    assert wire.usb_checksum(bytes(g) + p3[:7]) == p3[7]
    if MARK not in bytes(g[2:]):
        victims["crafted"] = bytes(g) + its["P2"][12:]
    for hname, head in heads.items():
        for vname, victim in victims.items():
            for j in range(1, 20):
                for how in ("eof", "reset"):
                    for cuts in ((), tuple(range(7, len(tail), 7)), (8,), (12,)):
                        s, o = run_c(head + victim[:j], how, split(tail, cuts))
                        runs += 1
                        got = [v for _, v in o.received]
                        exp = ([view_of(dec, its["P1"])] if hname.startswith("P1") else []) + exp_tail
                        outcomes.add(len(got))
                        res = None
                        bad = sorted(k for k in ("livelock", "watchdog", "busy_loop") if o.flags.get(k))
                        mx = max(s.pending_log) if s.pending_log else 0
                        if bad or o.end_reason != "quiescent":
                            res = ("hang", {"end": o.end_reason}, f"execution ended with {o.end_reason} {o.flags}")
                        elif len(s.gw.conns) < 2 or not o.flags.get("script_done"):
                            res = ("not_reconnected", {}, f"{len(s.gw.conns)} connection(s); status {o.status}")
                        elif got != exp:
                            lost = len(got) < len(exp)
                            res = ("packet_lost" if lost else "unexpected_delivery", {"delivered": len(got), "of": len(exp), "mechanism": "state_survives_reconnect"},
                                   f"clean stream on the new connection: delivered sids {[g[7][0][4] for g in got]}, sent {[e[7][0][4] for e in exp]}")
                        elif mx > PENDING_BOUND:
                            res = ("buffer_unbounded", {"pending": mx}, f"client holds back {mx} bytes after a read (bound {PENDING_BOUND})")
                        if res:
                            vios.append({"kind": res[0], "facts": dict(res[1], part="c"), "signature": f"c:{res[0]}:{hname}:{vname}:{how}",
                                         "detail": f"[connection 0: {hname} ({j} bytes of {vname}), then {how}; connection 1: {tail_names} cut at {list(cuts)[:4]}] {res[2]}",
                                         "case": {"part": "c", "head": hname, "victim": vname, "j": j, "how": how, "cuts": list(cuts), "seed": seed}})
                        elif sample is None:
                            sample = {"part": "c", "connection0": f"{hname}: {j} bytes of a packet, then {how}", "delivered_on_connection1": len(exp_tail)}
    # whole packets with the end of the stream right behind them (same loop iteration): nothing of what was sent may be lost
    for names in (["P1"], ["P1", "P2"], ["P1", "N21", "P2", "S1"], ["P1", "P2", "P3", "P4", "S1", "P1", "P2", "P3"]):
        data = b"".join(its[n] for n in names)
        exp_head = [view_of(dec, its[n]) for n in names if n in VALID]
        for cuts0 in ((), (len(data) // 2,), tuple(range(7, len(data), 7))):
            def feed_and_eof(sess, chunks=split(data, cuts0)):
                c = sess.gw.live_conn()
                if c is None:
                    return False
                for ch in chunks:
                    sess.env(c.transport.env_feed, ch)
                sess.env(c.transport.env_eof)
                c.eof_sent = True
                return True
            s = vloop.Session(kind=KIND, script=[it_connect, feed_and_eof])
            s.pending_log = []
            o = s.run()
            runs += 1
            got = [v for _, v in o.received]
            outcomes.add(len(got))
            if o.end_reason != "quiescent" or got != exp_head:
                vios.append({"kind": "packet_lost" if len(got) < len(exp_head) else "unexpected_delivery", "facts": {"part": "c", "mechanism": "eof_right_behind_data"},
                             "signature": f"c:eofbehind:{len(names)}",
                             "detail": f"[{names} in {len(cuts0) + 1} read(s), end of stream right behind] delivered sids {[g[7][0][4] for g in got]}, sent {[e[7][0][4] for e in exp_head]} ({o.end_reason})",
                             "case": {"part": "c", "eof_behind": names, "cuts": list(cuts0), "seed": seed}})
    # framing is by position: in a noise-free stream a valid packet whose own data bytes happen to contain AA 55 is a packet
    # like any other (the rule about the first packet after noise does not apply: there is no noise)
    pm1 = packet_with(40, 0x55AA)                                  # heading raw 0x55AA: 'aa 55' inside the data bytes
    pm2 = wire.usb_packet(wire.can_id(2, 127250, 0xAA, 255), clientkit.heading_data(41, 12345))
    if MARK in pm1[2:]:
        for names_, pk_ in ((["PM"], [pm1]), (["P1", "PM", "P2"], [its["P1"], pm1, its["P2"]]), (["PM", "PM", "P3"], [pm1, pm1, its["P3"]]),
                            (["P1", "PMid", "P2"], [its["P1"], pm2, its["P2"]])):
            data = b"".join(pk_)
            want = [view_of(dec, x) for x in pk_]
            for cuts0 in [(), tuple(range(7, len(data), 7)), tuple(range(1, len(data)))] + [(c,) for c in range(1, len(data), 3)]:
                s, o = run_stream(split(data, cuts0))
                runs += 1
                got = [v for _, v in o.received]
                outcomes.add(len(got))
                if o.end_reason != "quiescent" or got != want:
                    vios.append({"kind": "packet_lost" if len(got) < len(want) else "unexpected_delivery", "facts": {"part": "c", "mechanism": "marker_inside_valid_packet"},
                                 "signature": f"c:inner:{names_}",
                                 "detail": f"[noise-free stream {names_} (PM: a valid packet with AA 55 among its data bytes) cut at {list(cuts0)[:5]}] delivered {len(got)} of {len(want)} packets",
                                 "case": {"part": "c", "inner": names_, "cuts": list(cuts0), "seed": seed}})
                    break
    # a reconnection started by a failing write while the old port's read side is still up: bytes that still arrive on the old
    # handle do not belong to the new connection's stream
    for stale in (b"", its["P2"][:5], its["N19"], its["P2"][:12]):
        for cuts1 in ((), tuple(range(7, len(tail), 7)), (13,)):
            def arm(sess):
                sess.gw.write_error_sync = True
                sess.gw.write_error = lambda: RuntimeError("unable to perform operation on the transport (injected, write only)")
                sess.gw.fail_write_armed = True
                return True

            def feed_old(sess, data=stale):
                if len(sess.gw.conns) < 2 or sess.client.state != vloop.State.CONNECTED:
                    return False
                if data:
                    sess.env(sess.gw.conns[0].transport.env_feed, data)
                return True

            def feed_new(chunk):
                def item(sess):
                    if len(sess.gw.conns) < 2 or sess.client.state != vloop.State.CONNECTED:
                        return False
                    sess.env(sess.gw.conns[1].transport.env_feed, chunk)
                    return True
                return item
            chunks = split(tail, cuts1)
            script = [it_connect, vloop.it_feed(its["P1"], 0), arm, vloop.it_send(lambda: clientkit.heading_message(33))]
            script += [feed_new(chunks[0]), feed_old] + [feed_new(ch) for ch in chunks[1:]]
            s = vloop.Session(kind=KIND, script=script)
            s.pending_log = []
            o = s.run()
            runs += 1
            got = [v for _, v in o.received]
            exp = [view_of(dec, its["P1"])] + exp_tail
            outcomes.add(len(got))
            if o.end_reason != "quiescent" or not o.flags.get("script_done") or got != exp:
                vios.append({"kind": "packet_lost" if len(got) < len(exp) else "unexpected_delivery", "facts": {"part": "c", "mechanism": "old_connection_still_read"},
                             "signature": f"c:wfail:{len(stale)}",
                             "detail": f"[reconnection after a failing write; {len(stale)} stale bytes arrive on the old port while the new connection carries {tail_names} cut at {list(cuts1)[:4]}] "
                                       f"delivered sids {[g[7][0][4] for g in got]}, sent {[e[7][0][4] for e in exp]} ({o.end_reason}, {o.flags})",
                             "case": {"part": "c", "wfail": len(stale), "cuts": list(cuts1), "seed": seed}})
    return {"runs": runs, "nontrivial": runs, "outcomes": len(outcomes), "vios": vios[:40], "sample": sample, "streams": len(heads) * len(victims) * 19}


def _dispatch(t):
    return {"a": _task_a, "b": _task_b, "c": _task_c}[t[0]](t[1])


def plan_tasks(ctx):
    its = items(ctx.seed)
    names = list(its)
    tasks = []
    s1 = [(a,) for a in names]
    s2 = list(itertools.product(names, repeat=2))
    s3 = list(itertools.product(names, repeat=3))
    tasks.append(("a", (s1, 2, ctx.seed)))
    step2 = 12
    for i in range(0, len(s2), step2):
        tasks.append(("a", (s2[i:i + step2], 1, ctx.seed)))
    if ctx.thorough:
        for i in range(0, len(s3), 40):
            tasks.append(("a", (s3[i:i + 40], 1, ctx.seed)))
        core = ["P1", "P4", "C1d", "T7", "T1", "N19", "NM", "N55", "RZ", "N150"]
        s4 = list(itertools.product(core, repeat=4))
        for i in range(0, len(s4), 200):
            tasks.append(("a", (s4[i:i + 200], 0, ctx.seed)))
    else:
        for i in range(0, len(s3), 120):
            tasks.append(("a", (s3[i:i + 120], 0, ctx.seed)))
    for first in chunk_alphabet():
        tasks.append(("b", (first, 6 if ctx.thorough else 5, 12)))
    tasks.append(("c", (ctx.seed,)))
    return tasks


def run(ctx):
    tasks = plan_tasks(ctx)
    results = common.pmap(_dispatch, tasks)
    vios, samples = [], []
    runs = nontriv = outcomes = streams = 0
    b = {"states": 0, "transitions": 0, "max_depth": 0, "closed": True, "max_pending": 0, "lassos": 0}
    for t, r in zip(tasks, results):
        vios += r["vios"]
        if t[0] in ("a", "c"):
            runs += r["runs"]
            nontriv += r["nontrivial"]
            outcomes = max(outcomes, r["outcomes"])
            streams += r["streams"]
            if r["sample"] and len(samples) < 3:
                samples.append(r["sample"])
        else:
            for k in ("states", "transitions", "lassos"):
                b[k] += r[k]
            b["max_depth"] = max(b["max_depth"], r["max_depth"])
            b["max_pending"] = max(b["max_pending"], r["max_pending"])
            b["closed"] = b["closed"] and r["closed"]
            if r["sample"] and len(samples) < 5:
                samples.append(r["sample"])
    cov = {
        "states": b["states"] + streams, "transitions": b["transitions"] + runs,
        "traces_validated_against_impl": b["transitions"] + runs, "evaluations": b["transitions"] + runs,
        "distinct_nontrivial": nontriv + b["states"], "distinct_outcomes": outcomes,
        "rule": "(a) one execution per (stream over the 22-item alphabet, segmentation); non-trivial = stream mixes valid packets with "
                "disturbances. (b) BFS over chunk sequences, state = content of the bytes the client holds back; every state counted. "
                "(c) connection dropped (EOF / reset) after every prefix of a packet, clean stream on the next connection",
        "samples": samples,
        "part_b": b,
        "bound_completed": ("(a) streams <=3 items with every single cut (+7/33/100-byte chunking, byte-by-byte), <=4 items over a 9-item core; " if ctx.thorough
                            else "(a) streams <=2 items with every single cut, 1 item with every pair of cuts, 3 items with whole/7/33/100-byte chunking and byte-by-byte when short; ")
                           + (f"(b) all chunk sequences up to depth {6 if ctx.thorough else 5} over a 10-chunk alphabet (merged on identical held-back bytes) "
                              "plus every chunk repeated 12 times from every state" if b["closed"] else "(b) stopped by violations"),
        "exhaustive": bool(b["closed"]),
    }
    return {"coverage": cov, "violations": vios,
            "assumptions": ["valid packets contain no AA 55 after their header and do not end in AA (as the property states)",
                            f"'bounded' is taken as <= {PENDING_BOUND} bytes held back after any read (three packets' worth)"]}


def replay(ctx, rep):
    c = rep["case"]
    if c["part"] == "a":
        its = items(c.get("seed", 0))
        seq = tuple(c["stream"])
        stream = b"".join(its[n] for n in seq)
        s, o = run_stream(split(stream, c["cuts"]))
        return [{"kind": k, "facts": f, "detail": d, "case": c} for k, f, d in judge(seq, its, s, o, make_plan(seq, its))]
    if c["part"] == "c":
        r = _task_c((c.get("seed", 0),))
        if "inner" in c:
            return [v for v in r["vios"] if v["case"].get("inner") == c["inner"]][:1]
        if "wfail" in c:
            return [v for v in r["vios"] if v["case"].get("wfail") == c["wfail"] and v["case"]["cuts"] == c["cuts"]][:1]
        if "eof_behind" in c:
            return [v for v in r["vios"] if v["case"].get("eof_behind") == c["eof_behind"] and v["case"]["cuts"] == c["cuts"]][:1]
        return [v for v in r["vios"] if all(v["case"].get(k) == c[k] for k in ("head", "victim", "j", "how", "cuts"))][:1] or r["vios"][:1]
    alpha = chunk_alphabet()
    s, o = run_stream([alpha[n] for n in c["chunks"]])
    pend = max(s.pending_log) if s.pending_log else 0
    if pend > PENDING_BOUND:
        return [{"kind": "buffer_unbounded", "facts": {"pending": pend}, "detail": f"holds back {pend} bytes", "case": c}]
    return []
