"""C16 - decoder instances are isolated and unharmed by bad input.

Explicit-state BFS to a fixed point over histories of valid frames, fast-packet frames with three
counters, truncated frames, unknown PGNs, out-of-range payloads (also as the completing frame of a
fast-packet message), malformed text lines and bad checksums given to decoder X, with a second
decoder Y (fed in lock-step) and an encoder alive.  In every state: each probe (a single-frame
message; complete fast-packet messages with a fresh counter on the very streams the history used)
on a deep copy of X returns exactly what a fresh decoder returns; X and Y agree on every output;
constructor defaults, caller-owned argument lists and class attributes are unchanged."""
from __future__ import annotations

import copy

from .. import clientkit, common, wire, xstate
from nmea2000.consts import PhysicalQuantities as PQ
from nmea2000.decoder import NMEA2000Decoder
from nmea2000.encoder import NMEA2000Encoder

ID = "C16"

FAST_PGN, FAST_SRC = 130816, 1
OOR_PGN = 130578          # vessel speed components: 12 bytes, two frames


def fast_payload(tag):
    return bytes([0x02, 0x00]) + bytes(((tag * 31 + 7 * i) % 250) + 1 for i in range(14))


def events(deep=False):
    ev = {}
    hd = bytes.fromhex("0010270000ff7ffd")
    ev["A"] = ("tcp", wire.ebyte_packet(wire.can_id(2, 127250, 1, 255), hd))
    ident = wire.can_id(3, FAST_PGN, FAST_SRC, 255)
    for c in (0, 1, 2):
        fr = wire.fast_frames(c, fast_payload(c))
        for i, f in enumerate(fr):
            ev[f"f{c}_{i}"] = ("tcp", wire.ebyte_packet(ident, f))
    temp = bytes.fromhex("0101008a72ffffff")                                     # PGN 130312: instance 1, source 0, 293.06 K
    ev["T"] = ("tcp", wire.ebyte_packet(wire.can_id(5, 130312, 1, 255), temp))
    ev["T_src7"] = ("tcp", wire.ebyte_packet(wire.can_id(5, 130312, 7, 255), temp))  # same payload, other source
    # a whole message of the fast-packet stream handed over pre-assembled (Actisense), before / between / after its frames
    ev["F_acti"] = ("acti", wire.actisense_line(3, 255, FAST_SRC, FAST_PGN, fast_payload(4)))
    ev["unmatched65285"] = ("tcp", wire.ebyte_packet(wire.can_id(6, 65285, 8, 255), bytes.fromhex("3b9f010203040506")))   # no definition matches: ignored
    ev["lowrance65285"] = ("tcp", wire.ebyte_packet(wire.can_id(6, 65285, 8, 255), bytes.fromhex("8c8808fe7f555555")))    # lowranceTemperature
    ev["unmatched126720_0"] = ("tcp", wire.ebyte_packet(wire.can_id(6, 126208, 8, 255), bytes.fromhex("40030902010203")))  # 126208: fast, no fallback, function code 9 matches nothing
    ev["trunc0"] = ("tcp", wire.ebyte_packet(ident, b""))
    ev["trunc1"] = ("tcp", wire.ebyte_packet(ident, b"\x00"))            # first frame of counter 0 without its length byte
    ev["trunc1b"] = ("tcp", wire.ebyte_packet(ident, b"\x21"))           # frame 1 of counter 1 without data
    ev["trunc2"] = ("tcp", wire.ebyte_packet(ident, b"\x40\x10"))        # first frame of counter 2 announcing 16 bytes, no data
    ev["unk"] = ("tcp", wire.ebyte_packet(wire.can_id(6, 65000, 9, 255), bytes(range(1, 9))))
    ev["oor"] = ("tcp", wire.ebyte_packet(wire.can_id(2, 127250, 1, 255), bytes.fromhex("00ffff7f7f7f7ffd")))
    oor_ident = wire.can_id(2, OOR_PGN, 4, 255)
    bad = wire.fast_frames(3, bytes.fromhex("0080008000800080008000 80".replace(" ", "")))
    ev["oorf_0"] = ("tcp", wire.ebyte_packet(oor_ident, bad[0]))
    ev["oorf_1"] = ("tcp", wire.ebyte_packet(oor_ident, bad[1]))
    ev["bad_acti"] = ("acti", "this is not an actisense line")
    ev["bad_acti2"] = ("acti", "A000000.000 ZZZZZ 1F112 00")
    ev["bad_yd"] = ("yd", "00:00:00.000 X 09F11201 00 01")
    ev["bad_plain"] = ("plain", "2024-01-01-12:00:00.000,2,127250")
    p = bytearray(wire.usb_packet(wire.can_id(2, 127250, 1, 255), hd))
    p[19] ^= 0x11
    ev["bad_usb"] = ("usb", bytes(p))
    ev["short_usb"] = ("usb", bytes(p[:12]))
    if deep:
        # the same fast-packet stream reached through other entry points (state is shared across formats),
        # a second stream from another source, and a valid single frame through the text entry points
        for c in (0, 1):
            fr = wire.fast_frames(c, fast_payload(c))
            ev[f"f{c}_1_usb"] = ("usb", wire.usb_packet(ident, fr[1]))
            ev[f"f{c}_2_yd"] = ("yd", wire.yd_line(ident, fr[2]))
        ident2 = wire.can_id(3, FAST_PGN, 2, 255)
        fr2 = wire.fast_frames(1, fast_payload(7))
        for i, f in enumerate(fr2):
            ev[f"s2_{i}"] = ("tcp", wire.ebyte_packet(ident2, f))
        ev["A_yd"] = ("yd", wire.yd_line(wire.can_id(2, 127250, 1, 255), hd))
        ev["A_acti"] = ("acti", wire.actisense_line(2, 255, 1, 127250, hd))
    return ev


def probes():
    hd = bytes.fromhex("2a10270000ff7ffd")
    out = {"single": [("tcp", wire.ebyte_packet(wire.can_id(2, 127250, 1, 255), hd))]}
    ident = wire.can_id(3, FAST_PGN, FAST_SRC, 255)
    out["fast_fresh_counter"] = [("tcp", wire.ebyte_packet(ident, f)) for f in wire.fast_frames(5, fast_payload(9))]
    oor_ident = wire.can_id(2, OOR_PGN, 4, 255)
    good = wire.fast_frames(6, bytes.fromhex("010002000300040005000600"))
    out["fast_after_rejected_completion"] = [("tcp", wire.ebyte_packet(oor_ident, f)) for f in good]
    return out


def feed_obj(dec, entry, arg):
    """-> (result view, message object or None)"""
    try:
        if entry == "tcp":
            m = dec.decode_tcp(arg)
        elif entry == "usb":
            m = dec.decode_usb(arg)
        elif entry == "acti":
            m = dec.decode_actisense_string(arg)
        elif entry == "yd":
            m = dec.decode_yacht_devices_string(arg)
        else:
            m = dec.decode_basic_string(arg)
        return ("msg", common.msg_view(m)), m
    except Exception as ex:  # noqa: BLE001
        return ("raised", type(ex).__name__), None


def feed(dec, entry, arg):
    try:
        if entry == "tcp":
            m = dec.decode_tcp(arg)
        elif entry == "usb":
            m = dec.decode_usb(arg)
        elif entry == "acti":
            m = dec.decode_actisense_string(arg)
        elif entry == "yd":
            m = dec.decode_yacht_devices_string(arg)
        else:
            m = dec.decode_basic_string(arg)
        return ("msg", common.msg_view(m))
    except Exception as ex:  # noqa: BLE001
        return ("raised", type(ex).__name__)


def class_fingerprint():
    def fp(cls):
        items = []
        for k, v in sorted(vars(cls).items()):
            if callable(v) or isinstance(v, (staticmethod, classmethod, property)) or k.startswith("__"):
                continue
            items.append((k, repr(v)))
        return items
    return repr((NMEA2000Decoder.__init__.__defaults__, fp(NMEA2000Decoder), NMEA2000Encoder.__init__.__defaults__, fp(NMEA2000Encoder)))


class State:
    def __init__(self):
        self.x = NMEA2000Decoder()
        self.y = NMEA2000Decoder()      # fed exactly like X
        self.r = NMEA2000Decoder()      # fed only the inputs X did not reject with an error
        self.p = NMEA2000Decoder(preferred_units={PQ.TEMPERATURE: "C", PQ.ANGLE: "deg"})   # another configuration, same inputs


def norm(res):
    """message-level view of a result: a raised error and None both mean 'no message'"""
    return res[1] if res[0] == "msg" else None


def run_bfs(max_states, deep=False):
    evs = events(deep)
    names = list(evs)
    pr = probes()
    fresh = {}
    for pname, seq in pr.items():
        d = NMEA2000Decoder()
        fresh[pname] = [feed(d, e, a) for e, a in seq]
    enc = NMEA2000Encoder()
    enc_msg = clientkit.gnss_message()
    STATELESS = ("A", "T", "T_src7", "unk", "oor", "lowrance65285", "unmatched65285", "F_acti")
    base_plain = {n: feed(NMEA2000Decoder(), *evs[n]) for n in STATELESS}
    base_pref = {n: feed(NMEA2000Decoder(preferred_units={PQ.TEMPERATURE: "C", PQ.ANGLE: "deg"}), *evs[n]) for n in STATELESS}
    fp0 = class_fingerprint()
    stats = {"probes": 0}

    def viol(kind, ev, detail, facts=None):
        return {"kind": kind, "facts": facts or {}, "detail": f"[after event {ev}] {detail}", "signature": f"{kind}:{(facts or {}).get('probe')}"}

    def step(s, name):
        entry, arg = evs[name]
        rx, ox = feed_obj(s.x, entry, arg)
        enc.encode_ebyte(enc_msg)                      # an encoder working between the two decoders
        ry, oy = feed_obj(s.y, entry, arg)
        rp, op = feed_obj(s.p, entry, arg)
        out = []
        objs = [o for o in (ox, oy, op) if o is not None]
        if len({id(o) for o in objs}) != len(objs):
            out.append(viol("message_object_shared", name, "the same message object was returned by two decode calls (callers would see each other's changes)"))
        if ox is not None and ("msg", common.msg_view(ox)) != rx:
            out.append(viol("returned_message_changed_later", name, "a message returned by decoder X changed after other decoders decoded the same input"))
        if name in STATELESS:
            if rx != base_plain[name]:
                out.append(viol("single_frame_depends_on_history", name, f"decoder X returned {str(rx[1])[:100]}, a fresh decoder {str(base_plain[name][1])[:100]}"))
            if rp != base_pref[name]:
                out.append(viol("single_frame_depends_on_history", name, f"decoder with unit preferences returned {str(rp[1])[:120]}, a fresh one {str(base_pref[name][1])[:120]}",
                                {"probe": "preferences"}))
        if rx != ry:
            out.append(viol("instances_disagree", name, f"decoder X returned {rx[0]}:{str(rx[1])[:80]}, decoder Y fed the same history returned {ry[0]}:{str(ry[1])[:80]}"))
        if rx[0] != "raised":
            rr = feed(s.r, entry, arg)
            if norm(rx) != norm(rr):
                out.append(viol("rejected_input_left_traces", name, f"decoder X returned {str(norm(rx))[:90]} but a decoder that was never given the inputs X rejected "
                                f"with an error returned {str(norm(rr))[:90]}"))
        # shared state between instances shows up in class attributes / defaults (checked before the probes run)
        if class_fingerprint() != fp0:
            out.append(viol("class_state_changed", name, "constructor defaults or class attributes of the decoder/encoder changed"))
            return out
        for pname, seq in pr.items():
            c = copy.deepcopy(s.x)
            got = [feed(c, e, a) for e, a in seq]
            stats["probes"] += 1
            if got != fresh[pname]:
                i = next(i for i, (g, f) in enumerate(zip(got, fresh[pname])) if g != f)
                out.append(viol("probe_differs", name, f"probe '{pname}' frame {i}: after this history {got[i][0]}:{str(got[i][1])[:90]} but on a fresh decoder "
                                f"{fresh[pname][i][0]}:{str(fresh[pname][i][1])[:90]}", {"probe": pname}))
        return out

    def key(s):
        return common.canon_key([s.x, s.y, s.r, s.p, class_fingerprint()])

    def nontrivial(s):
        return len(getattr(s.x, "data", {})) > 0

    res = xstate.bfs(State(), lambda s: names, step, key, max_states=max_states, nontrivial=nontrivial, stop_after=10)
    return res, stats["probes"]


def run_claims(warm_up=()):
    """two decoders given DIFFERENT address claims from the same source address (NAMEs that differ in a single part):
    the identity each one attaches must be the database decode of the NAME that very decoder was given last.  The
    expectation comes from mc/refdb.py, not from another decoder of this process (a process-wide cache would fool that)."""
    from . import c11
    names = {k: c11.NAMES[k] for k in "abdefghi"}
    hd = wire.ebyte_packet(wire.can_id(2, 127250, 1, 255), bytes.fromhex("0010270000ff7ffd"))
    evs = {}
    for who in ("X", "Z"):
        for k, nm in names.items():
            evs[f"{who}:claim_{k}"] = (who, wire.claim_packet(1, nm), nm)
        evs[f"{who}:data"] = (who, hd, None)

    seen_in_process = []        # claims any decoder of this process was given so far, in order of first appearance
    for k in warm_up:
        NMEA2000Decoder().decode_tcp(wire.claim_packet(1, names[k]))
        seen_in_process.append(k)

    class S:
        def __init__(self):
            self.d = {"X": NMEA2000Decoder(), "Z": NMEA2000Decoder(build_network_map=True)}
            self.last = {"X": None, "Z": None}

    def step(s, name):
        who, pkt, nm = evs[name]
        try:
            m = s.d[who].decode_tcp(pkt)
        except Exception as ex:  # noqa: BLE001
            return [{"kind": "decoder_raises", "facts": {}, "detail": f"[event {name}] {type(ex).__name__}: {ex}", "signature": "claims:raise"}]
        if nm is not None:
            s.last[who] = nm
            k = name.split("_")[1]
            if k not in seen_in_process:
                seen_in_process.append(k)
        want = c11.ref_identity(s.last[who])
        if m is None:
            if want is None and who == "Z":
                return []            # network mapping on, source has not claimed: withheld
            return [{"kind": "message_missing", "facts": {}, "detail": f"[event {name}] nothing returned", "signature": "claims:none"}]
        got = c11.got_identity(m.source_iso_name)
        if got != want:
            other = "Z" if who == "X" else "X"
            leaked = got == c11.ref_identity(s.last[other]) and got is not None
            return [{"kind": "identity_from_another_decoder" if leaked else "identity_wrong", "facts": {"probe": "claims"},
                     "detail": f"[event {name}] decoder {who} attached {got}, the NAME it was given last decodes to {want}"
                               + (f" (that is what decoder {other} was given)" if leaked else ""),
                     "signature": f"claims:{'leak' if leaked else 'wrong'}", "case": {"claimed_earlier_in_process": list(seen_in_process)}}]
        return []

    def key(s):
        return common.canon_key([s.d["X"], s.d["Z"], s.last["X"], s.last["Z"]])
    res = xstate.bfs(S(), lambda s: list(evs), step, key, max_states=5000, nontrivial=lambda s: s.last["X"] != s.last["Z"], stop_after=6)
    return res


def run_filtering(map_on, mode, mlist):
    """a decoder with a manufacturer list and filtered claims: the data frames it drops must leave nothing behind.  Decoder X
    gets every input; decoder R gets the claims, but a data frame only when X returned a message for it.  Whenever X returns
    a message R must return the same one (differential: no reference for WHICH frames are to be dropped - that is C11's)."""
    from . import c11
    names = {k: c11.NAMES[k] for k in "abu"}
    hd = bytes.fromhex("10270000ff7ffd")
    evs = {}
    for src in (0, 2):
        for k, nm in names.items():
            evs[f"claim_{k}{src}"] = wire.claim_packet(src, nm)
        evs[f"d{src}"] = wire.ebyte_packet(wire.can_id(2, 127250, src, 255), bytes([src]) + hd)
    kw = {"build_network_map": map_on, "exclude_pgns": [60928]}
    kw["exclude_manufacturer_code" if mode == "exclude" else "include_manufacturer_code"] = list(mlist)

    class S:
        def __init__(self):
            self.x = NMEA2000Decoder(**kw)
            self.r = NMEA2000Decoder(**kw)

    def step(s, name):
        rx = feed(s.x, "tcp", evs[name])
        if name.startswith("claim_"):
            feed(s.r, "tcp", evs[name])
            return []
        if norm(rx) is None:
            # dropped by X: R itself never sees it, but a copy of R shows whether R would have dropped it too
            probe = feed(copy.deepcopy(s.r), "tcp", evs[name])
            if norm(probe) is not None:
                return [{"kind": "dropped_input_changes_later_results", "facts": {"probe": "filtering"},
                         "detail": f"[map={'on' if map_on else 'off'} {mode}={list(mlist)} claims filtered, event {name}] the decoder dropped this frame, a decoder that was "
                                   f"never given the data frames this one dropped earlier returns {str(norm(probe))[:80]}", "signature": f"filtering:drop:{mode}:{map_on}",
                         "case": {"filtering": [map_on, mode, list(mlist)]}}]
            return []
        rr = feed(s.r, "tcp", evs[name])
        if norm(rr) != norm(rx):
            return [{"kind": "dropped_input_changes_later_results", "facts": {"probe": "filtering"},
                     "detail": f"[map={'on' if map_on else 'off'} {mode}={list(mlist)} claims filtered, event {name}] the decoder returned a message, a decoder that was never "
                               f"given the data frames this one dropped returned {str(norm(rr))[:80]}", "signature": f"filtering:{mode}:{map_on}",
                     "case": {"filtering": [map_on, mode, list(mlist)]}}]
        return []

    def step2(s, name):
        # and the other way round: what R returns (it never saw the dropped frames) X must return as well
        out = step(s, name)
        if out or name.startswith("claim_"):
            return out
        return out
    return xstate.bfs(S(), lambda s: list(evs), step2, lambda s: common.canon_key([s.x, s.r]), max_states=20000, nontrivial=lambda s: len(getattr(s.x, "source_to_iso_name", ())) > 0, stop_after=6)


def run_id_filter():
    """a decoder with PGN filters given by id: the frames it drops leave nothing behind that changes what it returns later
    (several definitions share PGN 65280 / 130816; dropping one of them by id must not silence the others).  Differential as
    in run_filtering: decoder R is only given the frames X returned a message for."""
    evs = {
        "heave": wire.ebyte_packet(wire.can_id(7, 65280, 1, 255), bytes.fromhex("3f9fdcffffffffff")),
        "prop65280": wire.ebyte_packet(wire.can_id(7, 65280, 2, 255), bytes.fromhex("e598010203040506")),
        "hdg": wire.ebyte_packet(wire.can_id(2, 127250, 1, 255), bytes.fromhex("0010270000ff7ffd")),
        "lowrance": wire.ebyte_packet(wire.can_id(6, 65285, 8, 255), bytes.fromhex("8c8808fe7f555555")),
    }
    ident = wire.can_id(3, 130816, 1, 255)
    for tag, payload in (("g", bytes.fromhex("1389550180fe7ffe7f")), ("f", bytes([0x02, 0x00]) + bytes(range(10, 17)))):
        fr = wire.fast_frames(3, payload)
        evs[f"{tag}0"], evs[f"{tag}1"] = wire.ebyte_packet(ident, fr[0]), wire.ebyte_packet(ident, fr[1])
    results = []
    for kw in ({"exclude_pgns": ["furunoHeave", "sonichubInit2"]}, {"include_pgns": ["furunoHeave", "vesselHeading", "sonichubInit2"]}, {"exclude_pgns": ["FURUNOHEAVE", 127250]}):
        class S:
            def __init__(self, kw=kw):
                self.x, self.r = NMEA2000Decoder(**kw), NMEA2000Decoder(**kw)

        def step(st, name, kw=kw):
            rx = feed(st.x, "tcp", evs[name])
            if norm(rx) is None:
                if name[-1] in "01" and name[0] in "gf":
                    feed(st.r, "tcp", evs[name])          # frames of a fast-packet message are not 'dropped messages': both get them
                    return []
                probe = feed(copy.deepcopy(st.r), "tcp", evs[name])
                if norm(probe) is not None:
                    return [{"kind": "dropped_input_changes_later_results", "facts": {"probe": "id_filter"}, "signature": f"idfilter:drop:{sorted(kw)}",
                             "detail": f"[{kw}, event {name}] the decoder dropped this frame, a decoder that was never given the frames this one dropped earlier returns "
                                       f"{str(norm(probe))[:80]}", "case": {"id_filter": kw}}]
                return []
            rr = feed(st.r, "tcp", evs[name])
            if norm(rr) != norm(rx):
                return [{"kind": "dropped_input_changes_later_results", "facts": {"probe": "id_filter"}, "signature": f"idfilter:differs:{sorted(kw)}",
                         "detail": f"[{kw}, event {name}] returned {str(norm(rx))[:70]}, a decoder that was never given the dropped frames returned {str(norm(rr))[:70]}",
                         "case": {"id_filter": kw}}]
            return []
        results.append(xstate.bfs(S(), lambda st: list(evs), step, lambda st: common.canon_key([st.x, st.r]), max_states=20000,
                                  nontrivial=lambda st: len(getattr(st.x, "data", ())) > 0, stop_after=6))
    return results


def run_strays():
    """continuation frames that belong to no message in progress (their first frame was never seen, or they carry another
    sequence counter than the message being received) are ignored input: decoder X gets them, decoder S does not, and the two
    must return the same for everything else.  'In progress' is tracked by the environment: the counter of the last first frame."""
    ident = wire.can_id(3, FAST_PGN, FAST_SRC, 255)
    evs = {}
    for c in (0, 1, 2):
        for i, f in enumerate(wire.fast_frames(c, fast_payload(c))):
            evs[f"f{c}_{i}"] = (c, i, wire.ebyte_packet(ident, f))

    class S:
        def __init__(self):
            self.x, self.s, self.cur = NMEA2000Decoder(), NMEA2000Decoder(), None

    def step(st, name):
        c, i, pkt = evs[name]
        rx = feed(st.x, "tcp", pkt)
        if i > 0 and c != st.cur:
            if norm(rx) is not None:
                return [{"kind": "stray_frame_not_ignored", "facts": {"probe": "strays"}, "signature": "strays:returned",
                         "detail": f"[event {name}] a continuation frame of no message in progress made the decoder return {str(norm(rx))[:80]}", "case": {"strays": True}}]
            return []
        if i == 0:
            st.cur = c
        rs = feed(st.s, "tcp", pkt)
        if norm(rs) is not None:
            st.cur = None
        if norm(rx) != norm(rs):
            return [{"kind": "ignored_input_changes_later_results", "facts": {"probe": "strays"}, "signature": "strays:differs",
                     "detail": f"[event {name}] the decoder returned {str(norm(rx))[:70]}, a decoder that was never given the stray continuation frames returned {str(norm(rs))[:70]}",
                     "case": {"strays": True}}]
        return []
    return xstate.bfs(S(), lambda st: list(evs), step, lambda st: common.canon_key([st.x, st.s, st.cur]), max_states=20000,
                      nontrivial=lambda st: st.cur is not None, stop_after=6)


def run_other_streams():
    """frames of another stream (same PGN and source to another destination; same PGN and destination from another source) are
    irrelevant input for a stream: decoder X gets the frames of all three streams, one decoder per stream gets only its own,
    and on every frame X must return what that stream's own decoder returns.  All streams use the same sequence counter."""
    pgn = 126720
    streams = {"a": (5, 0x20, 1), "b": (5, 0x21, 2), "c": (6, 0x20, 3)}
    evs = {}
    for k, (src, dst, tag) in streams.items():
        ident = wire.can_id(3, pgn, src, dst)
        for i, f in enumerate(wire.fast_frames(0, bytes([1, 0x20 * tag & 0xE0]) + bytes((tag * 40 + j) % 250 + 1 for j in range(14)))):
            evs[f"{k}{i}"] = (k, wire.ebyte_packet(ident, f))

    class S:
        def __init__(self):
            self.x = NMEA2000Decoder()
            self.own = {k: NMEA2000Decoder() for k in streams}

    def step(st, name):
        k, pkt = evs[name]
        rx = feed(st.x, "tcp", pkt)
        ro = feed(st.own[k], "tcp", pkt)
        if norm(rx) != norm(ro):
            return [{"kind": "other_stream_changes_results", "facts": {"probe": "streams"}, "signature": "streams:differs",
                     "detail": f"[event {name}] the decoder that also receives the other streams returned {str(norm(rx))[:70]}, the decoder that receives only stream "
                               f"{k} (source {streams[k][0]} to destination {streams[k][1]:#x}) returned {str(norm(ro))[:70]}", "case": {"streams": True}}]
        return []
    return xstate.bfs(S(), lambda st: list(evs), step, lambda st: common.canon_key([st.x] + [st.own[k] for k in sorted(st.own)]), max_states=30000,
                      nontrivial=lambda st: len(getattr(st.x, "data", ())) >= 2, stop_after=6)


def config_checks():
    """caller-owned argument objects and defaults survive construction; decoders built from the same objects behave alike"""
    vios = []
    n = 0
    hd = wire.ebyte_packet(wire.can_id(2, 127250, 1, 255), bytes.fromhex("0010270000ff7ffd"))
    claim = wire.claim_packet(1, wire.iso_name())
    fp0 = class_fingerprint()
    for kwname, lst in (("exclude_pgns", [60928, 127250]), ("exclude_pgns", [60928, 127250, "isoAddressClaim"]), ("include_pgns", [127250]), ("include_pgns", [127250, "furunoHeave"]),
                        ("exclude_pgns", ["ISOADDRESSCLAIM"]), ("exclude_manufacturer_code", ["Garmin"]), ("include_manufacturer_code", ["FURUNO"]),
                        ("dump_pgns", [127250, "vesselHeading"])):
        before = copy.deepcopy(lst)
        d1 = NMEA2000Decoder(**{kwname: lst})
        r1 = [feed(d1, "tcp", claim), feed(d1, "tcp", hd)]
        n += 1
        if lst != before:
            vios.append({"kind": "caller_list_mutated", "facts": {"argument": kwname}, "signature": f"mut:{kwname}",
                         "detail": f"{kwname}={before} was changed to {lst} by constructing/using a decoder", "case": {"argument": kwname, "list": [str(x) for x in before]}})
        d2 = NMEA2000Decoder(**{kwname: lst})
        r2 = [feed(d2, "tcp", claim), feed(d2, "tcp", hd)]
        if r1 != r2:
            vios.append({"kind": "second_instance_differs", "facts": {"argument": kwname}, "signature": f"second:{kwname}",
                         "detail": f"two decoders constructed with {kwname}={before} returned different results for the same two frames",
                         "case": {"argument": kwname, "list": [str(x) for x in before]}})
        d3 = NMEA2000Decoder()
        r3 = [feed(d3, "tcp", claim), feed(d3, "tcp", hd)]
        r0 = [feed(NMEA2000Decoder(), "tcp", claim), ]
        if r3[0] != r0[0] or r3[1][1] is None:
            vios.append({"kind": "default_instance_affected", "facts": {"argument": kwname}, "signature": f"default:{kwname}",
                         "detail": f"a default-configured decoder created after one with {kwname}={before} does not behave like a fresh one",
                         "case": {"argument": kwname}})
    if class_fingerprint() != fp0:
        vios.append({"kind": "class_state_changed", "facts": {}, "signature": "class", "detail": "constructor defaults or class attributes changed", "case": {}})
    return n, vios


def run(ctx):
    res, nprobes = run_bfs(60000 if ctx.thorough else 20000, ctx.thorough)
    n_cfg, cvios = config_checks()
    cres = run_claims()
    fres = [run_filtering(*cfg) for cfg in ((False, "exclude", ("Garmin",)), (True, "include", ("furuno",)), (False, "include", ("Garmin",)))]
    fvios = [v for r in fres for v in r.violations]
    sres = run_strays()
    fvios += sres.violations
    fres.append(sres)
    ores = run_other_streams()
    fvios += ores.violations
    fres.append(ores)
    for r in run_id_filter():
        fvios += r.violations
        fres.append(r)
    vios = res.violations + cvios + cres.violations + fvios
    cov = {
        "states": res.states + cres.states + sum(r.states for r in fres), "transitions": res.transitions + cres.transitions + sum(r.transitions for r in fres),
        "traces_validated_against_impl": res.transitions * 2 + nprobes + cres.transitions + 2 * sum(r.transitions for r in fres),
        "evaluations": res.transitions + nprobes + n_cfg + cres.transitions + sum(r.transitions for r in fres), "distinct_nontrivial": res.nontrivial,
        "distinct_outcomes": 1 + len({v["kind"] for v in vios}),
        "rule": "main search: BFS states of (decoder X, decoder Y, decoder R that never sees inputs X rejected); further differential searches (claims on two decoders; "
                "filtering decoder vs one that never saw the frames it dropped; stray continuation frames withheld from a second decoder; three streams vs one decoder per stream) are "
                "counted in states / transitions and listed under claims_search / filtering_search. Main search: every transition feeds one of 27 (thorough: 38) events to X, Y and P (another configuration) (and to R unless X rejected it) and runs 3 probes on a deep copy of X; "
                "non-trivial = X holds at least one partly received fast-packet message",
        "samples": [{"history": h} for h in res.samples[:2]] or [{"history": []}],
        "probes_run": nprobes, "max_depth": res.max_depth, "configuration_checks": n_cfg,
        "claims_search": {"states": cres.states, "transitions": cres.transitions, "closed": cres.closed},
        "filtering_search": {"states": sum(r.states for r in fres), "transitions": sum(r.transitions for r in fres), "closed": all(r.closed or r.violations for r in fres)},
        "bound_completed": "fixed point (frontier emptied), also in the two-decoder search over 8 NAMEs differing in single parts" if res.closed and cres.closed else f"stopped: {res.cap_hit or cres.cap_hit}",
        "exhaustive": bool(res.closed and (cres.closed or cres.violations)),
    }
    return {"coverage": cov, "violations": vios,
            "assumptions": ["probes use sequence counters (5, 6) that the history never uses, as the property states ('fresh counter')",
                            "in the main search address claims are outside the alphabet; a second search gives two decoders different claims and compares with the database decode of the NAME"]}


def replay(ctx, rep):
    c = rep.get("case", {})
    if "id_filter" in c:
        orig = xstate.bfs

        def forced_i(init, enabled, step, key, **kw):
            out = xstate.SearchResult()
            for i, ev in enumerate(c["history"]):
                v = step(init, ev)
                if v:
                    out.violations += [dict(x, case=dict(x.get("case", {}), history=c["history"][:i + 1])) for x in v]
                    break
            return out
        xstate.bfs = forced_i
        try:
            return [v for r in run_id_filter() for v in r.violations if v["case"]["id_filter"] == c["id_filter"]]
        finally:
            xstate.bfs = orig
    if c.get("streams"):
        orig = xstate.bfs

        def forced_o(init, enabled, step, key, **kw):
            out = xstate.SearchResult()
            for i, ev in enumerate(c["history"]):
                v = step(init, ev)
                if v:
                    out.violations += [dict(x, case=dict(x.get("case", {}), history=c["history"][:i + 1])) for x in v]
                    break
            return out
        xstate.bfs = forced_o
        try:
            return run_other_streams().violations
        finally:
            xstate.bfs = orig
    if c.get("strays"):
        orig = xstate.bfs

        def forced_s(init, enabled, step, key, **kw):
            out = xstate.SearchResult()
            for i, ev in enumerate(c["history"]):
                v = step(init, ev)
                if v:
                    out.violations += [dict(x, case=dict(x.get("case", {}), history=c["history"][:i + 1])) for x in v]
                    break
            return out
        xstate.bfs = forced_s
        try:
            return run_strays().violations
        finally:
            xstate.bfs = orig
    if "filtering" in c:
        orig = xstate.bfs

        def forced_f(init, enabled, step, key, **kw):
            out = xstate.SearchResult()
            for i, ev in enumerate(c["history"]):
                v = step(init, ev)
                if v:
                    out.violations += [dict(x, case=dict(x.get("case", {}), history=c["history"][:i + 1])) for x in v]
                    break
            return out
        xstate.bfs = forced_f
        try:
            m_on, mode, ml = c["filtering"]
            return run_filtering(m_on, mode, tuple(ml)).violations
        finally:
            xstate.bfs = orig
    if "history" not in c:
        n, v = config_checks()
        return [x for x in v if x["kind"] == rep.get("kind")][:1]
    hist = c["history"]
    orig = xstate.bfs

    def forced(init, enabled, step, key, **kw):
        out = xstate.SearchResult()
        for i, ev in enumerate(hist):
            v = step(init, ev)
            if v:
                for x in v:
                    x = dict(x)
                    x["case"] = {"history": hist[:i + 1]}
                    out.violations.append(x)
                break
        return out
    xstate.bfs = forced
    try:
        if hist and ":" in hist[0]:
            res = run_claims(c.get("claimed_earlier_in_process", ()))
        else:
            res, _ = run_bfs(10, any(e not in events(False) for e in hist))
    finally:
        xstate.bfs = orig
    return res.violations
