"""C13 - clients recover from every connection fault and never stall the loop.

All placements of <=k faults (EOF, reset on read, write error, garbage then EOF, refusal
of the next connect) over every loop-iteration boundary of base sessions of the real
clients on the virtual loop; after the last fault the gateway accepts again and probes
every new connection."""
from __future__ import annotations

from .. import clientkit, common, vloop
from ..vloop import (it_connect, it_feed, it_send, sp_eof, sp_garbage_eof, sp_refuse_next, sp_reset,
                     sp_write_fail, steady_state)
from nmea2000.decoder import NMEA2000Decoder

ID = "C13"

BASES = {
    "r0": ("accept",),
    "r1": ("refuse", "accept"),
    "r3": ("refuse",) * 3 + ("accept",),
    "r7": ("refuse",) * 7 + ("accept",),
    "r12": ("refuse",) * 12 + ("accept",),            # long enough for an uncapped exponential delay to pass five minutes
    "u2": ("unreachable", "dns", "timeout", "accept"),       # failing connects that are OSError / TimeoutError, not ConnectionError
    "n2": ("noport", "noport", "accept"),             # serial port missing (SerialException)
}
GARBAGE = {"ebyte": b"\x01\x02\x03\x04\x05", "actisense": b"garbage\r\nA0000", "yd": b"\xff\xfe garbage\r\n00:00", "waveshare": b"\xaa\x55\x00\x01"}
FAULTS = ("eof", "reset", "write_fail", "garbage_eof", "refuse_next", "unreach_next")


def sp_write_fail_sync(sess):
    """the next write fails in write() itself while the read side of the link stays up (the old receive loop is still running
    when send()'s failure handler reconnects)"""
    if sess.gw.fail_write_armed:
        return False
    sess.gw.write_error_sync = True
    sess.gw.write_error = lambda: RuntimeError("unable to perform operation on the transport (injected, write only)")
    sess.gw.fail_write_armed = True
    return True


def specials(kind):
    return {"write_fail_sync": sp_write_fail_sync, "eof": sp_eof, "reset": sp_reset, "write_fail": sp_write_fail,
            "garbage_eof": sp_garbage_eof(GARBAGE[kind]), "refuse_next": sp_refuse_next,
            "unreach_next": vloop.sp_fail_next("noport" if kind == "waveshare" else "unreachable"),
            "send": vloop.sp_send(lambda: clientkit.heading_message(44))}       # not a fault: an application send() landing at this point


def make_kwargs_factory(kind, base, status_mode="ok", recv_mode="ok", with_send=True, bystander=False):
    pk = clientkit.std(kind)
    a = pk["A"]
    sp = specials(kind)

    def make(devs):
        return dict(kind=kind,
                    # with_send=False: no application send() at the end (a later send would mask a client
                    # that gave up reconnecting: its failure triggers a new connect())
                    # 'whatever the peer does': the traffic includes an undecodable packet and a well-framed one the decoder raises on
                    script=[it_connect, it_feed(a[:7]), it_feed(a[7:]), it_feed(pk["BAD"] + pk["RAISE"]), it_feed(pk["A2"])]
                           + ([it_send(lambda: clientkit.heading_message(66))] if with_send else []),
                    specials=sp, deviations=devs, heal=steady_state(pk["PROBE"], second_probe=(recv_mode == "slow")),
                    connect_plan=BASES[base], status_cb=status_mode, recv_cb=recv_mode,
                    settle=330.0, bystander=bystander)      # waits of up to five and a half minutes are followed (a delay capped anywhere below is fine)
    return make


def expected_probe(kind):
    return common.msg_view(clientkit.decode_one(NMEA2000Decoder(), kind, clientkit.std(kind)["PROBE"]))


def judge(kind, sess, o, probe_view):
    out = []
    flags = o.flags
    bad = sorted(k for k in ("livelock", "watchdog", "busy_loop") if flags.get(k))
    if bad:
        out.append(("loop_monopolised", {"flag": bad}, f"execution ended with {o.end_reason}: the client did not return control to the loop"))
        return out
    if o.end_reason != "quiescent":
        out.append(("no_quiescence", {"end": o.end_reason}, f"execution ended with {o.end_reason}"))
        return out
    if flags.get("two_reads_outstanding") or flags.get("max_outstanding", 0) > 1:
        out.append(("two_receive_paths", {}, "more than one read outstanding at a loop boundary"))
    if flags.get("callbacks_overlap"):
        out.append(("two_receive_paths", {"overlap": True}, f"a receive callback was started while another was still running ({flags['callbacks_overlap']} times): two consumers"))
    names = [n for _, n in o.status]
    if any(x == y for x, y in zip(names, names[1:])):
        out.append(("status_repeated", {}, f"status trace {names}"))
    if names and names[0] != "CONNECTED":
        out.append(("status_order", {}, f"first notification {names[0]}: {names}"))
    # every fault that hit while CONNECTED had been reported must be followed by DISCONNECTED
    log = sess.gw.log                # total order of specials, writes, attempts and status notifications
    last = None
    for i, ev in enumerate(log):
        if ev[0] == "status":
            last = ev[1]
        is_fault = (ev[0] == "special" and ev[1] in ("eof", "reset", "garbage_eof")) or ev[0] == "write_failed"
        if is_fault and last == "CONNECTED":
            if not any(e[0] == "status" and e[1] == "DISCONNECTED" for e in log[i + 1:]):
                fname = ev[1] if ev[0] == "special" else "write_fail"
                out.append(("no_disconnected_report", {"fault": fname}, f"{fname} while CONNECTED was the last report; log {log[i:]}"))
    # recovery
    live = sess.gw.live_conn()
    final_state = o.states[-1] if o.states else None
    if final_state != "CONNECTED" or live is None or live.eof_sent:
        out.append(("not_reconnected", {"final": final_state}, f"final state {final_state}, live connection {live.cid if live else None}, "
                    f"attempts {[(round(a.t, 3), a.outcome) for a in sess.gw.attempts]}, status {o.status}"))
    else:
        if names[-1:] != ["CONNECTED"]:
            out.append(("connected_not_reported", {}, f"status trace {names}"))
        probes = [p for p in o.marks.get("probes", []) if p[0] == live.cid]
        if not probes:
            out.append(("probe_not_sent", {}, "harness never probed the last connection (client stuck before CONNECTED?)"))
        else:
            # with a slow callback a probe sent on an earlier connection may still be waiting in the client's
            # queue, so count over the whole execution: the last probe must arrive, and no probe twice
            got = [v for (t, v) in o.received[probes[-1][2]:] if v == probe_view]
            total = sum(1 for (t, v) in o.received if v == probe_view)
            sent = len(o.marks.get("probes", []))
            if len(got) < 1 or total > sent:
                out.append(("probe_not_delivered", {"count": len(got)}, f"probe on connection {live.cid} delivered {len(got)} times after it was sent "
                            f"({total} probe deliveries for {sent} probes sent); received {len(o.received)} messages"))
    # back-off between attempts of one outage
    runs, cur = [], []
    for ev in sess.gw.log:           # total order of attempts and status notifications
        if ev[0] == "attempt":
            cur.append(ev[1])
        elif ev[0] == "status" and ev[1] == "CONNECTED" and cur:
            runs.append(cur)
            cur = []
    if cur:
        runs.append(cur)
    for r in runs:
        gaps = [round(b - a, 6) for a, b in zip(r, r[1:])]
        if any(g <= 0 for g in gaps):
            out.append(("backoff_zero", {}, f"gaps {gaps}"))
        elif any(g > 300.0 for g in gaps):          # 'capped': no particular cap is required, but twelve refusals must not lead to delays of minutes on end
            out.append(("backoff_uncapped", {}, f"gaps {gaps}"))
        elif any(y < x - 1e-9 for x, y in zip(gaps, gaps[1:])):
            out.append(("backoff_shrinks", {}, f"gaps {gaps}"))
        elif len(gaps) >= 2 and not gaps[-1] > gaps[0]:
            out.append(("backoff_not_growing", {}, f"gaps {gaps}"))
    n_recv = o.tasks_left.count("AsyncIOClient._receive_loop")
    if final_state == "CONNECTED" and n_recv != 1:
        out.append(("receive_paths", {"n": n_recv}, f"{n_recv} receive loops alive at the end: {o.tasks_left}"))
    return out


def _explore(args):
    kind, base, k, names, first = args[:5]
    modes = args[5] if len(args) > 5 else ("ok", "ok")
    with_send = not (len(modes) > 2 and modes[2] == "nosend")
    make = make_kwargs_factory(kind, base, modes[0], modes[1], with_send, bystander=len(modes) > 3 and modes[3] == "bystander")
    probe_view = expected_probe(kind)
    stats = {"judged": 0, "outcomes": set(), "nontrivial": 0, "boundaries_base": 0, "max_attempts": 0}
    vios, samples = [], []

    def on_exec(devs, sess, o):
        if not devs:
            stats["boundaries_base"] = len([b for b in o.boundaries if not b[0].startswith("special:")])
            if first is not None and first[0] != names[0]:
                return
        stats["judged"] += 1
        stats["max_attempts"] = max(stats["max_attempts"], len(sess.gw.attempts))
        stats["outcomes"].add((tuple(n for _, n in o.status), len(sess.gw.attempts), len(sess.gw.conns), len(o.received)))
        if len(sess.gw.conns) > 1:
            stats["nontrivial"] += 1
        for kind_v, facts, detail in judge(kind, sess, o, probe_view):
            vios.append({"kind": kind_v, "facts": dict(facts, client=kind),
                         "signature": f"{kind_v}:{kind}:{base}:{modes}:{[d[1] for d in devs]}",
                         "detail": f"[{kind} base={base} callbacks(status,receive)={modes} devs={devs}] {detail}",
                         "case": {"client": kind, "base": base, "modes": list(modes), "deviations": [list(d) for d in devs]}})
        if len(samples) < 1 and len(devs) == k:
            samples.append({"client": kind, "base": base, "deviations": [list(d) for d in devs], "status": o.status,
                            "attempts": [(round(a.t, 3), a.outcome) for a in sess.gw.attempts], "received": len(o.received)})

    cnt = vloop.explore_placements(make, names, k, on_exec, first_names=first)
    stats["runs"] = cnt["runs"]
    stats["redundant"] = cnt["redundant"]
    stats["outcomes"] = len(stats["outcomes"])
    return stats, vios, samples


def plan(ctx):
    tasks = []
    names = list(FAULTS)
    for kind in vloop.KINDS:
        if ctx.thorough:
            for f in names:
                tasks.append((kind, "r1", 3, ["eof", "reset", "write_fail", "refuse_next"], [f]) if f in ("eof", "reset", "write_fail", "refuse_next") else (kind, "r1", 2, names, [f]))
                tasks.append((kind, "r0", 2, names, [f]))
            tasks.append((kind, "r3", 2, names, None))
            tasks.append((kind, "r7", 1, names, None))
            tasks.append((kind, "r12", 1, ["eof", "reset"], None))
            tasks.append((kind, "n2" if kind == "waveshare" else "u2", 2, names, None))
        else:
            for f in names:
                tasks.append((kind, "r1", 2, names, [f]))
            tasks.append((kind, "r0", 1, names, None))
            tasks.append((kind, "r3", 1, names, None))
            tasks.append((kind, "r7", 1, ["eof", "reset"], None))
            tasks.append((kind, "r12", 1, ["eof"], None))
            tasks.append((kind, "n2" if kind == "waveshare" else "u2", 1, names, None))
        for modes in (("slow", "ok"), ("raise", "raise"), ("ok", "slow"), ("ok", "send")):
            tasks.append((kind, "r1", 2 if ctx.thorough else 1, names, None, modes))
        # a send() racing with a fault while connect() is still finishing (slow status callback holds the connect lock)
        race = ["send", "reset", "write_fail", "eof"]
        for f in race:
            tasks.append((kind, "r0", 2, race, [f], (["slow"], "ok", "nosend")))      # only the first (CONNECTED) notification is slow
            if ctx.thorough:
                tasks.append((kind, "r1", 3, race, [f], (["slow"], "ok", "nosend")))
        tasks.append((kind, "r1", 2 if ctx.thorough else 1, names, None, ("ok", "ok", "nosend")))
        # another client object of the same class in the same loop, retrying a gateway that is down all the while
        tasks.append((kind, "r1", 2 if ctx.thorough else 1, ["eof", "reset", "write_fail"], None, ("ok", "ok", "send", "bystander")))
        tasks.append((kind, "r0", 2, ["write_fail_sync", "send", "eof"], ["write_fail_sync"]))
    return tasks


def run(ctx):
    tasks = plan(ctx)
    tasks.sort(key=lambda t: -t[2])
    results = common.pmap(_explore, tasks)
    vios, samples, per = [], [], {}
    runs = judged = nontriv = outcomes = 0
    for t, (st, v, s) in zip(tasks, results):
        vios += v
        samples += s
        runs += st["runs"]
        judged += st["judged"]
        nontriv += st["nontrivial"]
        outcomes += st["outcomes"]
        key = f"{t[0]}/{t[1]}/k{t[2]}" + (f"/cb={t[5]}" if len(t) > 5 else "")
        e = per.setdefault(key, {"executions": 0, "judged": 0, "redundant": 0, "base_boundaries": st["boundaries_base"], "max_attempts": 0})
        e["executions"] += st["runs"]
        e["judged"] += st["judged"]
        e["redundant"] += st["redundant"]
        e["max_attempts"] = max(e["max_attempts"], st["max_attempts"])
    cov = {
        "states": judged, "transitions": runs, "traces_validated_against_impl": runs,
        "evaluations": runs, "distinct_nontrivial": nontriv,
        "rule": "one execution per placement of <=k faults over the loop-iteration boundaries (and 'just before the timer' points) of a "
                "base session; redundant = a fault with no effect at that point (no live connection); non-trivial = the client had to "
                "open more than one connection",
        "samples": samples[:4], "configs": per, "distinct_outcomes": outcomes,
        "bound_completed": ("k=3 over {eof,reset,write_fail,refuse_next} on r1, k=2 on r0/r3, k=1 on r7" if ctx.thorough
                            else "k=2 on r1 (all six fault kinds), k=1 on r0/r3/r7 and on the bases whose connects fail with OSError/TimeoutError/SerialException"),
        "exhaustive": True,
        "explanation": "every execution runs the real client on the virtual loop to quiescence; 'states' counts judged executions",
    }
    return {"coverage": cov, "violations": vios,
            "assumptions": ["sockets and time replaced by the fake transport and virtual clock; asyncio stream classes are real",
                            "the gateway answers a connection attempt at the first quiescent boundary after it was made",
                            "after the last fault the gateway accepts and sends one probe packet per new connection"]}


def replay(ctx, rep):
    c = rep["case"]
    md = c.get("modes", ["ok", "ok"])
    make = make_kwargs_factory(c["client"], c["base"], md[0], md[1], not (len(md) > 2 and md[2] == "nosend"), bystander=len(md) > 3 and md[3] == "bystander")
    devs = [tuple(d) for d in c["deviations"]]
    sess, o = vloop.run_session(**make(devs))
    sess2, o2 = vloop.run_session(**make(devs))
    if o.digest() != o2.digest():
        raise vloop.HarnessError("replay is not deterministic")
    return [{"kind": k, "facts": dict(f, client=c["client"]), "detail": d, "case": c}
            for k, f, d in judge(c["client"], sess, o, expected_probe(c["client"]))]
