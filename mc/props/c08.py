"""C08 - proprietary definitions are selected exactly by their match fields.

For every multi-definition PGN: base payloads = each definition's own match tuple x 3 fillings
of the remaining bits; deviations = up to k writes of *any* sibling's match field (its value,
or a value nobody uses) onto the base.  The selected per-definition decoder is observed by
replacing the per-definition functions with recorders (so a range error inside the selected
decoder cannot hide the selection) and, on a binding subset, through message.id on the
unpatched public path.  Reference: first definition in database order all of whose match
fields equal the payload bits, else the fallback, else not decoded."""
from __future__ import annotations

import itertools

from .. import common, refdb, wire
import nmea2000.pgns as pgns_mod
from nmea2000.decoder import NMEA2000Decoder

ID = "C08"


class Selected(Exception):
    def __init__(self, did):
        self.did = did


def patch(pgn, ds):
    """replace decode_pgn_<PGN>_<Id> in the generated module by recorders; returns undo list or None"""
    saved = []
    for d in ds:
        name = f"decode_pgn_{pgn}_{d.id}"
        if name not in pgns_mod.__dict__:
            for n, f in saved:
                pgns_mod.__dict__[n] = f
            return None
        saved.append((name, pgns_mod.__dict__[name]))

        def rec(data_raw, _id=d.id):
            raise Selected(_id)
        pgns_mod.__dict__[name] = rec
    return saved


def unpatch(saved):
    for n, f in saved:
        pgns_mod.__dict__[n] = f


def observe_public(dec, pgn, payload, nbytes):
    try:
        m = dec.decode_basic_string(wire.plain_line(3, pgn, 9, 255, payload.to_bytes(nbytes, "little")), already_combined=True)
    except Selected as s:
        return s.did
    except Exception as ex:  # noqa: BLE001
        return ("error", type(ex).__name__)
    return m.id if m is not None else None


def writes_for(ds):
    w = []
    positions = {}
    for d in ds:
        for f in d.match_fields:
            positions.setdefault((f.offset, f.bits), set()).add(f.match)
            if (f.offset, f.bits, f.match) not in w:
                w.append((f.offset, f.bits, f.match))
    for (o, b), used in positions.items():
        unused = next((v for v in range((1 << b) - 1, -1, -1) if v not in used), None)
        if unused is not None:
            w.append((o, b, unused))
        if 0 not in used:
            w.append((o, b, 0))
    return w


def apply(payload, writes):
    for o, b, v in writes:
        m = ((1 << b) - 1) << o
        payload = (payload & ~m) | ((v << o) & m)
    return payload


def _task(args):
    pgn, k, seed, part, nparts = args
    db = refdb.db()
    ds = db.by_pgn[pgn]
    nbytes = max(max((d.byte_length() for d in ds if d.fixed), default=8), 8)
    nbytes = min(nbytes, 223)
    top = nbytes * 8
    fills = [0, (1 << top) - 1, common.seeded_values(seed, 1, top, f"c08:{pgn}")[0]]
    W = writes_for(ds)
    dec = NMEA2000Decoder()
    vios = []
    st = {"cases": 0, "nontrivial": 0, "selected": set(), "binding": 0}
    sample = None

    def expect(p):
        sel = db.select(pgn, p)
        return next(iter(sel)) if sel else None

    # binding: unpatched public path on the base payloads (message.id), where the message decodes
    bases = []
    for di, d in enumerate(ds):
        if di % nparts != part:
            continue
        for fill in fills:
            p = apply(fill, [(f.offset, f.bits, f.match) for f in d.match_fields])
            bases.append((d, p))
            got = observe_public(dec, pgn, p, nbytes)
            st["binding"] += 1
            if isinstance(got, str) or got is None:
                want = expect(p)
                if got != want:
                    vios.append(mkv(pgn, p, nbytes, got, want, "public path (message.id)"))
                # and frame by frame through the frame-level entry points on the same long-lived decoder
                fastp = ds[0].fast
                if fastp or nbytes <= 8:
                    for ename, fn in wire.entry_points(pgn, p.to_bytes(nbytes, "little"), fastp, prio=3, src=9, dst=255, seq=(st["binding"] % 8)).items():
                        if ename in ("actisense", "plain_combined"):
                            continue
                        try:
                            m = fn(dec)
                            g2 = None if m is None else m.id
                        except Exception:  # noqa: BLE001
                            continue
                        st["binding"] += 1
                        if m is not None and m.PGN != pgn:
                            continue          # the entry point made another PGN of the frames: not the dispatcher's doing (C05/C07)
                        if g2 != want and g2 is not None:
                            vios.append(mkv(pgn, p, nbytes, g2, want, f"public path through {ename} (message.id)"))
    # payloads that carry a definition's match values but are rejected by its own range checks (reserved codes, values
    # below the range): the outcome may be an error, never another definition
    for di, d in enumerate(ds):
        if di % nparts != part or not d.fixed:
            continue
        base = apply(0, [(f.offset, f.bits, f.match) for f in d.match_fields])
        for f in d.fields:
            if f.match is not None or f.type not in refdb.NUMERIC or f.bits is None or f.bits < 4 or f.offset is None:
                continue
            for raw in (f.sentinel() - 1, f.sentinel() - 2, (1 << (f.bits - 1)) if f.signed else None):
                if raw is None:
                    continue
                p = apply(base, [(f.offset, f.bits, raw)])
                got = observe_public(dec, pgn, p, nbytes)
                st["binding"] += 1
                want = expect(p)
                if isinstance(got, str) and got != want:
                    vios.append(mkv(pgn, p, nbytes, got, want, f"public path (message.id), field {f.id} at a raw its definition rejects or reserves"))
    # fast-packet PGNs: a message shorter than the match fields reach, in a padded first frame; the padding is not payload
    if ds[0].fast:
        for di, d in enumerate(ds):
            if di % nparts != part:
                continue
            full = apply(0, [(f.offset, f.bits, f.match) for f in d.match_fields]).to_bytes(nbytes, "little")
            for L in (2, 3, 4, 5):
                short = full[:L]
                pshort = int.from_bytes(short, "little")
                want = expect(pshort)
                for pad in (0xFF, 0x01, 0x84, 0x0C):
                    fr = wire.fast_frames((di + L) % 8, short, pad)
                    try:
                        m = NMEA2000Decoder().decode_tcp(wire.ebyte_packet(wire.can_id(3, pgn, 9, 255), fr[0]))
                    except Exception:  # noqa: BLE001
                        continue
                    st["binding"] += 1
                    g3 = None if m is None else m.id
                    if m is not None and m.PGN == pgn and g3 != want:
                        vios.append(mkv(pgn, pshort, L, g3, want, f"public path, {L}-byte message in one frame padded with {pad:#04x} (message.id)"))
    # every match value with one bit flipped (a mask that is too narrow, or a comparison at the wrong offset, lets one through)
    for di, d in enumerate(ds):
        if di % nparts != part:
            continue
        base = apply(fills[0], [(f.offset, f.bits, f.match) for f in d.match_fields])
        for f in d.match_fields:
            for bit in range(f.bits):
                p = apply(base, [(f.offset, f.bits, f.match ^ (1 << bit))])
                got = observe_public(dec, pgn, p, nbytes)
                st["binding"] += 1
                want = expect(p)
                if (isinstance(got, str) or got is None) and got != want:
                    vios.append(mkv(pgn, p, nbytes, got, want, f"public path (message.id), match field {f.id} with bit {bit} flipped"))
    saved = patch(pgn, ds)
    via = "recorders around the per-definition functions"
    try:
        disp = pgns_mod.__dict__.get(f"decode_pgn_{pgn}") if saved is not None else None
        for d, base in bases:
            for r in range(0, k + 1):
                for combo in itertools.combinations(W, r):
                    p = apply(base, combo)
                    st["cases"] += 1
                    if r:
                        st["nontrivial"] += 1
                    want = expect(p)
                    if disp is not None and st["cases"] % 5:
                        try:
                            res = disp(p)
                            got = None if res is None else getattr(res, "id", "?")
                        except Selected as s:
                            got = s.did
                        except Exception as ex:  # noqa: BLE001
                            got = ("error", type(ex).__name__)
                    else:
                        got = observe_public(dec, pgn, p, nbytes)
                        if saved is None and not (isinstance(got, str) or got is None):
                            continue            # no recorders and the selected decoder failed: selection not observable
                    st["selected"].add(got if not isinstance(got, tuple) else "error")
                    if got != want:
                        if len(vios) < 40:
                            vios.append(mkv(pgn, p, nbytes, got, want, via))
                    elif sample is None and r == 2:
                        sample = {"pgn": pgn, "payload_hex": p.to_bytes(nbytes, "little").hex(), "selected": got, "base_definition": d.id,
                                  "writes": [list(x) for x in combo]}
    finally:
        if saved is not None:
            unpatch(saved)
    st["selected"] = len(st["selected"])
    st["recorders"] = saved is not None
    return st, vios, sample, len([1 for di in range(len(ds)) if di % nparts == part])


def mkv(pgn, p, nbytes, got, want, via):
    return {"kind": "wrong_selection", "facts": {"pgn": pgn, "got": str(got), "expected": str(want)},
            "signature": f"sel:{pgn}:{got}:{want}",
            "detail": f"[PGN {pgn} payload={p.to_bytes(nbytes, 'little').hex()[:60]}] selected {got}, database order says {want} (observed via {via})",
            "case": {"pgn": pgn, "payload_hex": p.to_bytes(nbytes, "little").hex()}}


def run(ctx):
    db = refdb.db()
    k = 3 if ctx.thorough else 2
    pg = sorted(db.match_pgns, key=lambda p: -len(db.match_pgns[p]))
    tasks = []
    for p in pg:
        n = len(db.match_pgns[p])
        kk = k if n < 30 or not ctx.thorough else 2
        nparts = max(1, min(16, n // 3))
        for part in range(nparts):
            tasks.append((p, kk, ctx.seed, part, nparts))
    results = common.pmap(_task, tasks)
    vios, samples = [], []
    cases = nontriv = sel = ndefs = binding = 0
    rec = True
    for st, v, s, nd in results:
        vios += v
        cases += st["cases"]
        nontriv += st["nontrivial"]
        sel += st["selected"]
        binding += st["binding"]
        ndefs += nd
        rec = rec and st["recorders"]
        if s and len(samples) < 4:
            samples.append(s)
    cov = {
        "states": cases, "transitions": cases + binding, "traces_validated_against_impl": cases + binding, "evaluations": cases + binding,
        "distinct_nontrivial": nontriv, "distinct_outcomes": sel,
        "rule": "case = (definition's own match tuple, filling of the other bits in {zeros, ones, seeded}, <=k writes of sibling match "
                "fields / unused values); non-trivial = at least one write; distinct_outcomes = distinct (PGN, selected definition) seen",
        "samples": samples, "multi_definition_pgns": len(pg), "definitions": ndefs, "recorders_in_place": rec,
        "bound_completed": f"k={k} writes (k=2 for PGNs with >=30 definitions in the thorough tier)", "exhaustive": True,
    }
    return {"coverage": cov, "violations": vios,
            "assumptions": ["selection observed through recorders installed in the generated module's namespace (binding-checked against message.id on the base payloads)",
                            "a definition without match fields inside a match-distinguished PGN (129808 dscCallInformation) can never be selected: not selected = not decoded"]}


def replay(ctx, rep):
    c = rep["case"]
    db = refdb.db()
    pgn = c["pgn"]
    data = bytes.fromhex(c["payload_hex"])
    p = int.from_bytes(data, "little")
    ds = db.by_pgn[pgn]
    saved = patch(pgn, ds)
    try:
        got = observe_public(NMEA2000Decoder(), pgn, p, len(data))
    finally:
        if saved:
            unpatch(saved)
    sel = db.select(pgn, p)
    want = next(iter(sel)) if sel else None
    if got != want:
        return [mkv(pgn, p, len(data), got, want, "replay")]
    # found through another route (frame-level entry point, padded short frame, bit flip): re-run the PGN's task
    st, vios, _, _ = _task((pgn, 1, 0, 0, 1))
    return [v for v in vios if v["case"]["payload_hex"] == c["payload_hex"]][:1]
