"""C18 - preferred-unit conversion rewrites only value and unit of matching quantities.

Every definition that has a field with a physical quantity x payloads (base 'mid', each such
field at min / max / zero / mid / not-available) x all 144 preference maps over the four
convertible quantities (each recognised unit, an unrecognised unit, absent) plus letter-case
variants and maps naming non-convertible quantities; the message decoded with preferences is
compared attribute by attribute with the one decoded without."""
from __future__ import annotations

import itertools
import math
from fractions import Fraction

from .. import common, payloads, refdb, wire
from nmea2000.consts import PhysicalQuantities as PQ
from nmea2000.decoder import NMEA2000Decoder

ID = "C18"

OPTIONS = {
    PQ.TEMPERATURE: ["c", "f", "kelvin?", None],
    PQ.PRESSURE: ["bar", "psi", "atm?", None],
    PQ.ANGLE: ["deg", "grad?", None],
    PQ.SPEED: ["kts", "mph?", None],
}
VALID = {"TEMPERATURE": ("c", "f"), "PRESSURE": ("bar", "psi"), "ANGLE": ("deg",), "SPEED": ("kts",)}     # recognised units per quantity
SI = {"TEMPERATURE": "K", "PRESSURE": "Pa", "ANGLE": "rad", "SPEED": "m/s"}
LABELS = {"c": {"c", "°c", "celsius"}, "f": {"f", "°f", "fahrenheit"}, "bar": {"bar"}, "psi": {"psi"}, "deg": {"deg", "°", "degree", "degrees"},
          "kts": {"kts", "kn", "knots", "knot"}}


def convert(unit, v: Fraction):
    """exact conversion and the half-width of the rounding the library applies"""
    if unit == "c":
        return v - Fraction("273.15"), Fraction("0.005") + Fraction(1, 10 ** 6)
    if unit == "f":
        return (v - Fraction("273.15")) * Fraction(9, 5) + 32, Fraction("0.5") + Fraction(1, 10 ** 6)
    if unit == "bar":
        return v / 100000, abs(v / 100000) * Fraction(1, 10 ** 5) + Fraction(1, 10 ** 12)
    if unit == "psi":
        return v / Fraction("6894.757293168"), abs(v / Fraction("6894.76")) * Fraction(1, 10 ** 5) + Fraction(1, 10 ** 9)
    if unit == "deg":
        return v * 180 / Fraction(math.pi), Fraction("0.5") + Fraction(1, 10 ** 6)
    if unit == "kts":
        return v * 3600 / 1852, Fraction("0.05") + Fraction(1, 10 ** 6)
    raise AssertionError(unit)


def all_maps():
    maps = []
    keys = list(OPTIONS)
    for combo in itertools.product(*[OPTIONS[k] for k in keys]):
        maps.append({k: v for k, v in zip(keys, combo) if v is not None})
    # letter-case variants, one quantity at a time
    for k, opts in OPTIONS.items():
        for u in opts[:2] if k in (PQ.TEMPERATURE, PQ.PRESSURE) else opts[:1]:
            for variant in (u.upper(), u.capitalize(), u[0].lower() + u[1:].upper()):
                if variant != u:
                    maps.append({k: variant})
    # quantities that have no conversion
    maps.append({PQ.LENGTH: "ft", PQ.VOLUME: "gal", PQ.DISTANCE: "nm"})
    maps.append({PQ.LENGTH: "ft", PQ.ANGLE: "deg"})
    # a unit that is recognised - for another quantity: not a recognised preference for this one
    units = ("c", "f", "bar", "psi", "deg", "kts")
    own = {PQ.TEMPERATURE: ("c", "f"), PQ.PRESSURE: ("bar", "psi"), PQ.ANGLE: ("deg",), PQ.SPEED: ("kts",)}
    for q, mine in own.items():
        for u in units:
            if u not in mine:
                maps.append({q: u})
    # recognised unit names attached to quantities that have no conversion at all
    others = [q for q in PQ if q not in own]
    for i, q in enumerate(others):
        maps.append({q: units[i % len(units)]})
    maps.append({q: units[(i + 1) % len(units)] for i, q in enumerate(others)})
    return maps


def dec_line(dec, pgn, p, n):
    try:
        return dec.decode_basic_string(wire.plain_line(3, pgn, 7, 255, p.to_bytes(n, "little")), already_combined=True)
    except Exception as ex:  # noqa: BLE001
        return ("error", type(ex).__name__)


def compare(defn, ref, got, prefs):
    if isinstance(ref, tuple) or ref is None:
        if (isinstance(got, tuple) and isinstance(ref, tuple)) or (got is None and ref is None):
            return []
        return [("decodability_changed", {}, f"without preferences {ref!r}, with preferences {type(got).__name__}")]
    if isinstance(got, tuple) or got is None:
        return [("decodability_changed", {}, f"decodes without preferences, with preferences: {got!r}")]
    out = []
    head = lambda m: (m.PGN, m.id, m.description, m.ttl, m.source, m.destination, m.priority, m.hash, len(m.fields))
    if head(ref) != head(got):
        out.append(("message_attribute_changed", {}, f"{head(ref)} != {head(got)}"))
        return out
    low = {k.name: v.lower() for k, v in prefs.items()}
    for i, (a, b) in enumerate(zip(ref.fields, got.fields)):
        f = defn.fields[i] if i < len(defn.fields) else None
        pq = f.pq if f is not None else None
        unit = low.get(pq) if pq else None
        convertible = unit in VALID.get(pq, ()) and f is not None and f.unit == SI.get(pq)
        same_meta = (a.id, a.name, a.description, a.physical_quantities, a.type, a.part_of_primary_key) == \
                    (b.id, b.name, b.description, b.physical_quantities, b.type, b.part_of_primary_key)
        if not same_meta:
            out.append(("field_attribute_changed", {"field": a.id}, f"field {a.id}: metadata differs"))
            continue
        if common.val_view(a.raw_value) != common.val_view(b.raw_value):
            out.append(("raw_value_changed", {"field": a.id}, f"field {a.id}: raw {a.raw_value!r} -> {b.raw_value!r}"))
            continue
        if not convertible:
            if common.val_view(a.value) != common.val_view(b.value) or a.unit_of_measurement != b.unit_of_measurement:
                out.append(("unrelated_field_changed", {"field": a.id, "quantity": pq, "db_unit": f.unit if f else None, "preference": unit},
                            f"field {a.id} ({pq}, database unit {f.unit if f else None}) changed from {a.value!r} {a.unit_of_measurement!r} to "
                            f"{b.value!r} {b.unit_of_measurement!r} under preference {unit!r}"))
            continue
        # convertible: value converted, label replaced; absent stays absent
        if a.value is None:
            if b.value is not None:
                out.append(("absent_not_preserved", {"field": a.id}, f"field {a.id}: absent became {b.value!r}"))
        else:
            want, tol = convert(unit, Fraction(a.value))
            if not isinstance(b.value, (int, float)) or abs(Fraction(b.value) - want) > tol:
                out.append(("wrong_conversion", {"field": a.id, "unit": unit}, f"field {a.id}: {a.value!r} {a.unit_of_measurement} -> {b.value!r}, exact {float(want)!r} (tolerance {float(tol)})"))
        if not isinstance(b.unit_of_measurement, str) or b.unit_of_measurement.lower() not in LABELS[unit]:
            out.append(("label_not_updated", {"field": a.id, "unit": unit}, f"field {a.id}: unit label {b.unit_of_measurement!r} after conversion to {unit}"))
    return out


def payload_set(defn, seed, deep=False):
    if deep:
        # thorough: also from the other bases, and two quantity fields off base at a time
        seen = set()
        for bname in ("mid", "max", "min", "ones"):
            base = payloads.base_assignment(defn, bname)
            pq = [i for i, f in enumerate(defn.fields) if f.pq is not None and f.bits is not None and f.type in refdb.NUMERIC]
            toks = {}
            for i in pq:
                f = defn.fields[i]
                rr = f.raw_range()
                t = [f.sentinel(), 0]
                if rr:
                    t += [rr[0] & ((1 << f.bits) - 1), rr[1] & ((1 << f.bits) - 1), ((rr[0] + rr[1]) // 2) & ((1 << f.bits) - 1)]
                toks[i] = list(dict.fromkeys(t))
            p, n = payloads.build(defn, base)
            if (p, n) not in seen:
                seen.add((p, n))
                yield None, p, n
            for i in pq:
                for t in toks[i]:
                    a = list(base)
                    a[i] = t
                    p, n = payloads.build(defn, a)
                    if (p, n) not in seen:
                        seen.add((p, n))
                        yield i, p, n
            if bname == "mid":
                for i, j in itertools.combinations(pq[:8], 2):
                    for ti in toks[i][:4]:
                        for tj in toks[j][:4]:
                            a = list(base)
                            a[i], a[j] = ti, tj
                            p, n = payloads.build(defn, a)
                            if (p, n) not in seen:
                                seen.add((p, n))
                                yield i, p, n
        return
    base = payloads.base_assignment(defn, "mid")
    seen = set()
    p, n = payloads.build(defn, base)
    seen.add((p, n))
    yield None, p, n
    for i, f in enumerate(defn.fields):
        if f.pq is None or f.bits is None or f.type not in refdb.NUMERIC:
            continue
        rr = f.raw_range()
        toks = [f.sentinel(), 0]
        if rr:
            toks += [rr[0] & ((1 << f.bits) - 1), rr[1] & ((1 << f.bits) - 1), ((rr[0] + rr[1]) // 2) & ((1 << f.bits) - 1), (rr[0] + 1) & ((1 << f.bits) - 1)]
        toks += common.seeded_values(seed, 1, f.bits, f"c18:{defn.pgn}:{f.id}")
        for t in toks:
            a = list(base)
            a[i] = t
            p, n = payloads.build(defn, a)
            if (p, n) not in seen:
                seen.add((p, n))
                yield i, p, n


def _task(args):
    idxs, seed = args[:2]
    deep = len(args) > 2 and args[2]
    db = refdb.db()
    maps = all_maps()
    ref_dec = NMEA2000Decoder()
    decs = [NMEA2000Decoder(preferred_units=m) for m in maps]
    vios = []
    st = {"cases": 0, "nontrivial": 0, "fields": 0, "converted": 0}
    sample = None
    for di in idxs:
        defn = db.defs[di]
        pqf = [f for f in defn.fields if f.pq]
        if not pqf:
            continue
        st["fields"] += len(pqf)
        has_conv = any(f.pq in SI for f in pqf)
        for fi, p, n in payload_set(defn, seed, deep):
            ref = dec_line(ref_dec, defn.pgn, p, n)
            # definitions without a convertible field: a ninth of the product maps, and every map that names other quantities
            use = range(len(maps)) if has_conv else list(range(0, 144, 9)) + [i for i in range(144, len(maps)) if any(k not in OPTIONS for k in maps[i])]
            for mi in use:
                got = dec_line(decs[mi], defn.pgn, p, n)
                st["cases"] += 1
                ddef = defn
                if not isinstance(ref, tuple) and ref is not None and ref.id != defn.id:
                    ddef = db.by_id.get((ref.PGN, ref.id), defn)
                res = compare(ddef, ref, got, maps[mi])
                if maps[mi] and has_conv:
                    st["nontrivial"] += 1
                for kind, facts, detail in res:
                    if len(vios) < 80:
                        vios.append({"kind": kind, "facts": dict(facts, definition=defn.id),
                                     "signature": f"{kind}:{defn.pgn}:{defn.id}:{facts.get('field')}:{facts.get('unit')}",
                                     "detail": f"[PGN {defn.pgn} {defn.id} payload={p.to_bytes(n, 'little').hex()[:60]} prefs={ {k.name: v for k, v in maps[mi].items()} }] {detail}",
                                     "case": {"pgn": defn.pgn, "definition": defn.id, "payload_hex": p.to_bytes(n, "little").hex(), "map_index": mi}})
                if sample is None and not res and has_conv and maps[mi] and not isinstance(got, tuple) and got is not None and fi is not None:
                    sample = {"pgn": defn.pgn, "definition": defn.id, "payload_hex": p.to_bytes(n, "little").hex(),
                              "preferences": {k.name: v for k, v in maps[mi].items()},
                              "fields": {f.id: [common.val_view(f.value), f.unit_of_measurement] for f in got.fields if f.physical_quantities}}
    return st, vios, sample


def _task_order(args):
    """history independence: every ordered pair of definitions that share a PGN, decoded one after the
    other on ONE decoder with preferences, must convert like a fresh decoder does"""
    pgns, seed = args
    db = refdb.db()
    maps = [m for m in all_maps() if len(m) == 4 and all(v in ("c", "bar", "deg", "kts", "f", "psi") for v in m.values())][:2]
    vios = []
    st = {"cases": 0, "nontrivial": 0, "fields": 0}
    for pgn in pgns:
        ds = db.by_pgn[pgn]
        pays = {}
        for d in ds:
            p, n = payloads.build(d, payloads.base_assignment(d, "mid"))
            pays[d.id] = (p, n)
        for m in maps:
            for d1 in ds:
                for d2 in ds:
                    if d1 is d2 or not any(f.pq in SI for f in d2.fields):
                        continue
                    dec = NMEA2000Decoder(preferred_units=m)
                    dec_line(dec, pgn, *pays[d1.id])
                    got = dec_line(dec, pgn, *pays[d2.id])
                    # reference: a decoder without preferences that saw the same two messages
                    plain = NMEA2000Decoder()
                    dec_line(plain, pgn, *pays[d1.id])
                    ref = dec_line(plain, pgn, *pays[d2.id])
                    st["cases"] += 1
                    st["nontrivial"] += 1
                    ddef = d2
                    if not isinstance(ref, tuple) and ref is not None and ref.id != d2.id:
                        ddef = db.by_id.get((ref.PGN, ref.id), d2)
                    for kind, facts, detail in compare(ddef, ref, got, m):
                        if len(vios) < 40:
                            vios.append({"kind": kind, "facts": dict(facts, definition=d2.id, after=d1.id, mechanism="depends_on_history"),
                                         "signature": f"order:{kind}:{pgn}:{d2.id}",
                                         "detail": f"[PGN {pgn} {d2.id} decoded after {d1.id} on the same decoder, prefs={ {k.name: v for k, v in m.items()} }] {detail}",
                                         "case": {"pgn": pgn, "definition": d2.id, "after": d1.id, "payload_hex": pays[d2.id][0].to_bytes(pays[d2.id][1], "little").hex(),
                                                  "map_index": all_maps().index(m)}})
    return st, vios, None


def _task_entry(args):
    """the conversion must not depend on the entry point: single frames, fast-packet messages reassembled
    from frames and pre-assembled messages, through every input format, on decoders with preferences"""
    idxs, seed = args
    db = refdb.db()
    maps = [m for m in all_maps() if len(m) == 4 and all(v in ("c", "bar", "deg", "kts", "f", "psi") for v in m.values())]
    vios = []
    st = {"cases": 0, "nontrivial": 0, "fields": 0}
    for di in idxs:
        defn = db.defs[di]
        if not any(f.pq in SI for f in defn.fields):
            continue
        for b in ("mid", "max"):
            p, n = payloads.build(defn, payloads.base_assignment(defn, b))
            if n > 223 or (not defn.fast and n > 8) or n == 0:
                continue
            payload = p.to_bytes(n, "little")
            for m in maps:
                for name, fn in wire.entry_points(defn.pgn, payload, defn.fast).items():
                    # the reference is the same delivery to a decoder without preferences (what an entry point makes of the
                    # frames is C07's subject; here only the effect of the preferences is judged)
                    try:
                        ref = fn(NMEA2000Decoder())
                    except Exception as ex:  # noqa: BLE001
                        ref = ("error", type(ex).__name__)
                    ddef = defn
                    if not isinstance(ref, tuple) and ref is not None and ref.id != defn.id:
                        ddef = db.by_id.get((ref.PGN, ref.id), defn)
                    try:
                        got = fn(NMEA2000Decoder(preferred_units=m))
                    except Exception as ex:  # noqa: BLE001
                        got = ("error", type(ex).__name__)
                    st["cases"] += 1
                    st["nontrivial"] += 1
                    for kind, facts, detail in compare(ddef, ref, got, m):
                        if len(vios) < 40:
                            vios.append({"kind": kind, "facts": dict(facts, definition=defn.id, entry=name, mechanism="depends_on_entry_point"),
                                         "signature": f"entry:{kind}:{defn.pgn}:{defn.id}:{name}",
                                         "detail": f"[PGN {defn.pgn} {defn.id} payload={payload.hex()[:60]} through {name}{' (frame by frame)' if defn.fast and name not in ('actisense', 'plain_combined') else ''}, "
                                                   f"prefs={ {k.name: v for k, v in m.items()} }] {detail}",
                                         "case": {"pgn": defn.pgn, "definition": defn.id, "payload_hex": payload.hex(), "entry": name, "map_index": all_maps().index(m)}})
    return st, vios, None


def _task_sweep(args):
    """a run of consecutive raw values for every convertible field (the conversions round: an error in the rounding shows
    only at a small fraction of the values), each recognised unit of the field's quantity"""
    idxs, width = args
    db = refdb.db()
    vios = []
    st = {"cases": 0, "nontrivial": 0, "fields": 0}
    ref_dec = NMEA2000Decoder()
    for di in idxs:
        defn = db.defs[di]
        base = payloads.base_assignment(defn, "mid")
        for i, f in enumerate(defn.fields):
            if f.pq not in SI or f.unit != SI[f.pq] or f.bits is None or f.type not in refdb.NUMERIC or f.match is not None:
                continue
            rr = f.raw_range()
            if not rr:
                continue
            st["fields"] += 1
            lo = max(rr[0], min((rr[0] + rr[1]) // 2, rr[1] - width))
            for unit in VALID[f.pq]:
                q = next(k for k in OPTIONS if k.name == f.pq)
                dec = NMEA2000Decoder(preferred_units={q: unit})
                for raw in range(lo, min(lo + width, rr[1] + 1)):
                    a = list(base)
                    a[i] = raw & ((1 << f.bits) - 1)
                    p, n = payloads.build(defn, a)
                    ref = dec_line(ref_dec, defn.pgn, p, n)
                    got = dec_line(dec, defn.pgn, p, n)
                    st["cases"] += 1
                    st["nontrivial"] += 1
                    if isinstance(ref, tuple) or ref is None or isinstance(got, tuple) or got is None or ref.id != defn.id or i >= len(got.fields):
                        continue
                    av, bv = ref.fields[i].value, got.fields[i].value
                    if av is None:
                        continue
                    want, tol = convert(unit, Fraction(av))
                    if not isinstance(bv, (int, float)) or abs(Fraction(bv) - want) > tol:
                        if len(vios) < 30:
                            vios.append({"kind": "wrong_conversion", "facts": {"field": f.id, "unit": unit, "definition": defn.id, "mechanism": "rounding"},
                                         "signature": f"sweep:{defn.pgn}:{defn.id}:{f.id}:{unit}",
                                         "detail": f"[PGN {defn.pgn} {defn.id} field {f.id} raw {raw}, preference {unit}] {av!r} {SI[f.pq]} -> {bv!r}, exact {float(want)!r} (tolerance {float(tol)})",
                                         "case": {"pgn": defn.pgn, "definition": defn.id, "payload_hex": p.to_bytes(n, "little").hex(), "sweep": [i, unit]}})
    return st, vios, None


def _dispatch(t):
    return {"fields": _task, "order": _task_order, "entry": _task_entry, "sweep": _task_sweep}[t[0]](t[1])


def run(ctx):
    db = refdb.db()
    idxs = [d.idx for d in db.defs if any(f.pq for f in d.fields)]
    order = sorted(idxs, key=lambda i: -sum(1 for f in db.defs[i].fields if f.pq in SI))
    nb = 48
    buckets = [[] for _ in range(nb)]
    for j, i in enumerate(order):
        buckets[j % nb].append(i)
    tasks = [("fields", (b, ctx.seed, ctx.thorough)) for b in buckets if b]
    multi = sorted(db.multi, key=lambda p: -len(db.multi[p]))
    for p in multi:
        tasks.append(("order", ([p], ctx.seed)))
    conv = [d.idx for d in db.defs if any(f.pq in SI for f in d.fields)]
    for j in range(16):
        if conv[j::16]:
            tasks.append(("entry", (conv[j::16], ctx.seed)))
    for j in range(32):
        if conv[j::32]:
            tasks.append(("sweep", (conv[j::32], 4096 if ctx.thorough else 1024)))
    results = common.pmap(_dispatch, tasks)
    vios, samples = [], []
    tot = {"cases": 0, "nontrivial": 0, "fields": 0}
    for st, v, s in results:
        vios += v
        for k in tot:
            tot[k] += st[k]
        if s and len(samples) < 4:
            samples.append(s)
    cov = {
        "states": tot["cases"], "transitions": tot["cases"], "traces_validated_against_impl": tot["cases"], "evaluations": tot["cases"],
        "distinct_nontrivial": tot["nontrivial"], "distinct_outcomes": 1 + len({v["kind"] for v in vios}),
        "rule": "case = (payload, preference map); payloads = base mid + every field with a physical quantity at not-available, 0, "
                "range ends, mid and a seeded raw; maps = all 144 combinations over the four convertible quantities + case variants "
                "+ maps naming non-convertible quantities; non-trivial = non-empty map on a definition with a convertible field",
        "samples": samples, "fields_with_physical_quantity": tot["fields"], "preference_maps": len(all_maps()),
        "bound_completed": ("quantity fields off base one at a time from 4 bases and two at a time from base mid" if ctx.thorough else "one field off base at a time") + "; all preference maps; every ordered pair of definitions sharing a PGN on one decoder; bases mid and max of every definition with a convertible field through 6 entry points (fast-packet messages frame by frame) x 8 full maps; " + ("4096" if ctx.thorough else "1024") + " consecutive raws of every convertible field x each unit of its quantity", "exhaustive": True,
    }
    return {"coverage": cov, "violations": vios,
            "assumptions": ["a field is convertible when its database unit is the SI unit of its quantity (K, Pa, rad, m/s)",
                            "accepted tolerances: C +-0.005, F +-0.5, deg +-0.5, kts +-0.05, bar/psi 1e-5 relative (the library's rounding)"]}


def replay(ctx, rep):
    c = rep["case"]
    db = refdb.db()
    if "after" in c:
        st, v, _ = _task_order(([c["pgn"]], 0))
        return [x for x in v if x["case"]["definition"] == c["definition"] and x["case"]["after"] == c["after"]][:1]
    defn = db.by_id[(c["pgn"], c["definition"])]
    if "sweep" in c:
        st, v, _ = _task_sweep(([defn.idx], 4096))
        return [x for x in v if x["case"]["sweep"] == c["sweep"]][:1]
    if "entry" in c:
        st, v, _ = _task_entry(([defn.idx], 0))
        return [x for x in v if x["case"]["entry"] == c["entry"] and x["case"]["payload_hex"] == c["payload_hex"]][:1]
    data = bytes.fromhex(c["payload_hex"])
    p = int.from_bytes(data, "little")
    m = all_maps()[c["map_index"]]
    ref = dec_line(NMEA2000Decoder(), c["pgn"], p, len(data))
    got = dec_line(NMEA2000Decoder(preferred_units=m), c["pgn"], p, len(data))
    ddef = defn
    if not isinstance(ref, tuple) and ref is not None and ref.id != defn.id:
        ddef = db.by_id.get((ref.PGN, ref.id), defn)
    return [{"kind": k, "facts": f, "detail": d, "case": c} for k, f, d in compare(ddef, ref, got, m)]
