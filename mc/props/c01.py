"""C01 - decoded fields match the canboat definition for every PGN and payload.

Bounded exhaustive enumeration: 418 definitions x (5 base payloads x all <=k-field
deviations over the per-field alphabet) + every raw value of every field of <=N bits,
each decoded by the real library through its public entry point and compared with the
reference interpreter of canboat.json (mc/refdb.py)."""
from __future__ import annotations

import datetime as dt

from .. import common, payloads, refdb, wire
from nmea2000.decoder import NMEA2000Decoder

ID = "C01"


def decode_public(dec, pgn, payload_int, nbytes, entry="plain"):
    data = payload_int.to_bytes(nbytes, "little")
    if entry == "tcp" and nbytes <= 8:
        return dec.decode_tcp(wire.ebyte_packet(wire.can_id(3, pgn, 7, 255), data))
    return dec.decode_basic_string(wire.plain_line(3, pgn, 7, 255, data), already_combined=True)


def run_lib(dec, pgn, payload_int, nbytes, entry="plain"):
    try:
        return decode_public(dec, pgn, payload_int, nbytes, entry), None
    except Exception as ex:  # noqa: BLE001
        return None, f"{type(ex).__name__}: {ex}"


def pq_name(x):
    return getattr(x, "name", x)


def compare(db, pgn, payload_int, nbytes, msg, err):
    """-> list of (kind, facts, detail)"""
    sel = db.select(pgn, payload_int)
    if msg is None:
        if not sel:
            return []
        # not decoded: a violation only if every definition the database allows for this payload says
        # 'must decode' (where several undistinguished definitions exist the library may use any of them)
        reasons = []
        for did in sorted(sel):
            defn = db.by_id[(pgn, did)]
            frs, must = refdb.ref_decode(defn, payload_int, nbytes)
            if not must:
                return []
            reasons.append((did, defn, frs))
        did, defn, frs = reasons[0]
        return [("must_decode", {"definition": did, "error": (err or "returned None").split(":")[0],
                                 "cause": classify_failure(defn, frs, err)},
                 f"every field in range and well-formed but decoding failed: {err or 'returned None'}")]
        return []
    out = []
    if msg.PGN != pgn:
        return [("wrong_pgn", {}, f"message says PGN {msg.PGN}")]
    if msg.id not in sel:
        return [("wrong_definition", {"got": msg.id, "expected": sorted(sel)}, f"decoded as {msg.id}, database selects {sorted(sel)}")]
    defn = db.by_id[(pgn, msg.id)]
    if msg.description != defn.description:
        out.append(("wrong_description", {"definition": defn.id}, f"{msg.description!r} != {defn.description!r}"))
    want_ttl = dt.timedelta(milliseconds=defn.interval) if defn.interval is not None else None
    if msg.ttl != want_ttl:
        out.append(("wrong_ttl", {"definition": defn.id}, f"{msg.ttl!r} != {want_ttl!r}"))
    frs, must = refdb.ref_decode(defn, payload_int, nbytes)
    complete = len(frs) == len(defn.fields) and all(fr.exp is not refdb.ANY or not fr.mayfail for fr in frs)
    n = len(frs) if complete else len(frs) - 1
    if len(msg.fields) < n or (complete and len(msg.fields) != len(defn.fields)):
        out.append(("field_count", {"definition": defn.id}, f"{len(msg.fields)} fields reported, database has {len(defn.fields)}"))
    for i in range(min(n, len(msg.fields))):
        fr, mf = frs[i], msg.fields[i]
        f = fr.field
        meta_got = (mf.id, mf.name, mf.unit_of_measurement, pq_name(mf.physical_quantities), pq_name(mf.type), bool(mf.part_of_primary_key))
        meta_want = (f.id, f.name, f.unit, f.pq, f.type, f.pk)
        if meta_got != meta_want:
            if f.type == "RESERVED" and f.offset is None and mf.id.startswith("reserved_") and meta_got[1:] == meta_want[1:]:
                pass
            else:
                out.append(("wrong_metadata", {"definition": defn.id, "field": f.id}, f"field {i}: {meta_got} != {meta_want}"))
                continue
        if not refdb.check_value(fr.exp, mf.value):
            out.append(("wrong_value", {"definition": defn.id, "field": f.id, "type": f.type, "cause": classify_value(f, fr, mf.value)},
                        f"field {f.id} ({f.type}, {fr.bits} bits at {fr.offset}, raw {fr.u}): value {common.val_view(mf.value)!r} but database says {fr.exp}"))
        elif f.type in ("LOOKUP", "BITLOOKUP", "RESERVED", "SPARE", "INDIRECT_LOOKUP") and mf.raw_value != fr.u:
            out.append(("wrong_raw_value", {"definition": defn.id, "field": f.id}, f"field {f.id}: raw_value {mf.raw_value!r} != {fr.u}"))
    return out


def classify_value(f, fr, got):
    if f.off != 0 and isinstance(got, (int, float)) and fr.exp.kind == "approx":
        if refdb.approx_equal(got, fr.exp.v - f.off, f.res):
            return "offset_ignored"
    return "other"


def classify_failure(defn, frs, err):
    e = err or ""
    if "Value above maximum" in e or "Value below minimum" in e:
        if any(fr.field.off != 0 for fr in frs):
            return "offset_ignored_range"
        return "range_check_on_in_range_value"
    if e.startswith("AssertionError"):
        return "assertion"
    if e.startswith("IndexError"):
        return "index_error"
    return "other"


def enumerate_cases(defn, tier_k, narrow, seed, bases, k2_bases=("mid", "ones")):
    """yield (label, payload_int, nbytes)"""
    alph = [payloads.field_alphabet(f, seed) for f in defn.fields]
    seen = set()
    for b in bases:
        base = payloads.base_assignment(defn, b)
        p, n = payloads.build(defn, base)
        if (p, n) not in seen:
            seen.add((p, n))
            yield (b, ()), p, n
        k = tier_k if b in k2_bases else 1
        for combo, a in payloads.deviations(defn, base, alph, k):
            p, n = payloads.build(defn, a)
            if (p, n) not in seen:
                seen.add((p, n))
                yield (b, combo), p, n
    # every raw of narrow fields on the mid base
    base = payloads.base_assignment(defn, "mid")
    for i, f in enumerate(defn.fields):
        if f.bits is not None and f.bits <= narrow and f.type in refdb.SUPPORTED and f.match is None:
            for u in range(1 << f.bits):
                a = list(base)
                a[i] = u
                p, n = payloads.build(defn, a)
                if (p, n) not in seen:
                    seen.add((p, n))
                    yield ("mid-sweep", (i,)), p, n


def _task(args):
    idxs, k, narrow, seed = args
    db = refdb.db()
    dec = NMEA2000Decoder()
    vios = []
    stats = {"cases": 0, "decoded": 0, "failed_ok": 0, "nontrivial": 0, "defs": 0, "unsupported_defs": 0}
    sample = None
    outcomes = set()
    for di in idxs:
        defn = db.defs[di]
        stats["defs"] += 1
        if not defn.supported:
            stats["unsupported_defs"] += 1
        per_def = 0
        for label, p, n in enumerate_cases(defn, 2, narrow, seed, payloads.BASES, k2_bases=("mid", "ones") if k == 2 else ("mid",)):
            stats["cases"] += 1
            entry = "tcp" if (stats["cases"] % 7 == 0 and not defn.fast and n <= 8) else "plain"
            msg, err = run_lib(dec, defn.pgn, p, n, entry)
            if msg is not None:
                stats["decoded"] += 1
            if label[1]:
                stats["nontrivial"] += 1
            res = compare(db, defn.pgn, p, n, msg, err)
            outcomes.add((msg is not None, (err or "").split(":")[0]))
            if res and per_def < 40:
                for kind, facts, detail in res:
                    per_def += 1
                    vios.append({"kind": kind, "facts": facts,
                                 "signature": f"{kind}:{defn.pgn}:{facts.get('definition', defn.id)}:{facts.get('field')}:{facts.get('cause')}",
                                 "detail": f"[PGN {defn.pgn} {defn.id} base={label[0]} changed={list(label[1])} payload={p.to_bytes(n, 'little').hex()}] {detail}",
                                 "case": {"pgn": defn.pgn, "definition": defn.id, "payload_hex": p.to_bytes(n, "little").hex(), "entry": entry}})
            if sample is None and msg is not None and label[1]:
                sample = {"pgn": defn.pgn, "definition": defn.id, "base": label[0], "changed_fields": list(label[1]),
                          "payload_hex": p.to_bytes(n, "little").hex(), "decoded_id": msg.id}
    return stats, vios, sample, len(outcomes)


def _task_history(args):
    """history independence: the definitions that share a PGN decoded one after the other on ONE decoder
    (forward, backward, and again), and every base payload decoded twice: each result is still checked
    against the reference, so a cache keyed too coarsely (per PGN, per table shape, per payload) shows."""
    pgns, seed = args
    db = refdb.db()
    vios = []
    stats = {"cases": 0, "decoded": 0, "failed_ok": 0, "nontrivial": 0, "defs": 0, "unsupported_defs": 0}
    dec = NMEA2000Decoder()
    for pgn in pgns:
        ds = db.by_pgn[pgn]
        seq = []
        for d in ds:
            for b in ("mid", "max", "zero"):
                p, n = payloads.build(d, payloads.base_assignment(d, b))
                seq.append((d, b, p, n))
        for order, items in (("forward", seq), ("backward", seq[::-1]), ("again", seq)):
            for d, b, p, n in items:
                stats["cases"] += 1
                stats["nontrivial"] += 1
                msg, err = run_lib(dec, pgn, p, n)
                if msg is not None:
                    stats["decoded"] += 1
                for kind, facts, detail in compare(db, pgn, p, n, msg, err):
                    if len(vios) < 60:
                        vios.append({"kind": kind, "facts": dict(facts, mechanism="depends_on_history"),
                                     "signature": f"hist:{kind}:{pgn}:{facts.get('definition', d.id)}:{facts.get('field')}",
                                     "detail": f"[PGN {pgn} {d.id} base={b}, decoded in a {order} pass over all definitions of the PGN on one decoder, payload={p.to_bytes(n, 'little').hex()[:60]}] {detail}",
                                     "case": {"pgn": pgn, "definition": d.id, "payload_hex": p.to_bytes(n, "little").hex(), "entry": "plain", "history_pass": order}})
    return stats, vios, None, 0


def _task_env(args):
    """what a payload decodes to depends on its bits and the database only, not on the process environment: the base payloads
    of every definition with a DATE / TIME / DURATION field under time zones west and east of Greenwich"""
    import os
    import time as _time
    idxs, = args
    db = refdb.db()
    vios = []
    stats = {"cases": 0, "decoded": 0, "failed_ok": 0, "nontrivial": 0, "defs": 0, "unsupported_defs": 0}
    old_tz = os.environ.get("TZ")
    try:
        for tz in ("PST8", "CET-1", "AOE12", "NZST-12"):
            os.environ["TZ"] = tz
            _time.tzset()
            dec = NMEA2000Decoder()
            for di in idxs:
                d = db.defs[di]
                for b in ("zero", "mid", "max"):
                    p, n = payloads.build(d, payloads.base_assignment(d, b))
                    stats["cases"] += 1
                    stats["nontrivial"] += 1
                    msg, err = run_lib(dec, d.pgn, p, n)
                    if msg is not None:
                        stats["decoded"] += 1
                    for kind, facts, detail in compare(db, d.pgn, p, n, msg, err):
                        if len(vios) < 40:
                            vios.append({"kind": kind, "facts": dict(facts, mechanism="depends_on_environment", tz=tz),
                                         "signature": f"env:{kind}:{d.pgn}:{d.id}:{facts.get('field')}",
                                         "detail": f"[PGN {d.pgn} {d.id} base={b}, process time zone {tz}, payload={p.to_bytes(n, 'little').hex()[:60]}] {detail}",
                                         "case": {"pgn": d.pgn, "definition": d.id, "payload_hex": p.to_bytes(n, "little").hex(), "entry": "plain", "tz": tz}})
    finally:
        if old_tz is None:
            os.environ.pop("TZ", None)
        else:
            os.environ["TZ"] = old_tz
        _time.tzset()
    return stats, vios, None, 0


def _dispatch(t):
    return {"enum": _task, "hist": _task_history, "env": _task_env}[t[0]](t[1])


def run(ctx):
    db = refdb.db()
    k = 2 if ctx.thorough else 1
    narrow = 16 if ctx.thorough else 8
    n = len(db.defs)
    # balance: cost ~ number of fields^k
    order = sorted(range(n), key=lambda i: -len(db.defs[i].fields))
    nb = 64 if not ctx.thorough else 209
    buckets = [[] for _ in range(nb)]
    for j, i in enumerate(order):
        buckets[j % nb].append(i)
    tasks = [("enum", (b, k, narrow, ctx.seed)) for b in buckets if b]
    # history passes: all PGNs, grouped so that bit-lookup / lookup tables of different PGNs meet in one process
    allp = sorted(db.by_pgn)
    for i in range(0, 4):
        tasks.append(("hist", (allp[i::4], ctx.seed)))
    tasks.append(("hist", (allp[::-1], ctx.seed)))
    timed = [d.idx for d in db.defs if any(f.type in ("DATE", "TIME", "DURATION") for f in d.fields)]
    tasks.append(("env", (timed,)))
    results = common.pmap(_dispatch, tasks)
    vios, samples = [], []
    tot = {"cases": 0, "decoded": 0, "nontrivial": 0, "defs": 0, "unsupported_defs": 0}
    outcomes = 0
    for st, v, s, oc in results:
        vios += v
        for key in tot:
            tot[key] += st[key]
        outcomes = max(outcomes, oc)
        if s and len(samples) < 4:
            samples.append(s)
    cov = {
        "states": tot["cases"], "transitions": tot["cases"], "traces_validated_against_impl": tot["cases"],
        "evaluations": tot["cases"], "distinct_nontrivial": tot["nontrivial"], "distinct_outcomes": outcomes,
        "rule": "one case per distinct payload: 5 base payloads per definition (zero, ones, min, mid, max in-range raws; match fields "
                "forced) x all deviations of <=k fields over the per-field alphabet, plus every raw of fields <=N bits; non-trivial = "
                "at least one field deviates from its base",
        "samples": samples, "definitions": tot["defs"], "definitions_with_unsupported_field_types": tot["unsupported_defs"],
        "decoded": tot["decoded"], "bound_completed": f"<=1 deviating field from all 5 bases, <=2 deviating fields from base {'mid and ones' if k == 2 else 'mid'}, every raw of fields <= {narrow} bits; definitions with date / time fields again under 4 process time zones",
        "exhaustive": True,
    }
    return {"coverage": cov, "violations": vios,
            "assumptions": ["reference interpreter mc/refdb.py (written from canboat.json only)",
                            "where the database leaves the answer open several readings are accepted (DESIGN 2.1)",
                            "definitions containing field types the generator declares unsupported are excluded from the must-decode clause"]}


def replay(ctx, rep):
    c = rep["case"]
    db = refdb.db()
    data = bytes.fromhex(c["payload_hex"])
    p = int.from_bytes(data, "little")
    if c.get("tz"):
        import os
        import time as _time
        old = os.environ.get("TZ")
        os.environ["TZ"] = c["tz"]
        _time.tzset()
        try:
            msg, err = run_lib(NMEA2000Decoder(), c["pgn"], p, len(data), c.get("entry", "plain"))
            return [{"kind": k, "facts": f, "detail": d, "case": c} for k, f, d in compare(db, c["pgn"], p, len(data), msg, err)]
        finally:
            if old is None:
                os.environ.pop("TZ", None)
            else:
                os.environ["TZ"] = old
            _time.tzset()
    msg, err = run_lib(NMEA2000Decoder(), c["pgn"], p, len(data), c.get("entry", "plain"))
    return [{"kind": k, "facts": f, "detail": d, "case": c} for k, f, d in compare(db, c["pgn"], p, len(data), msg, err)]
