"""C05 - CAN identifier packing and parsing are mutually inverse (PDU1/PDU2 aware).

Exhaustive enumeration against independent bit-field arithmetic (mc/wire.py):
 - parse -> build over identifiers: all 2^29 (thorough) / the whole 18-bit PGN field x
   boundary sources x all priorities plus all (source, PS) pairs for boundary PF values (quick);
 - build -> parse over canonical (priority, source, destination, PGN) tuples and non-canonical
   inputs (broadcast PGN with a destination other than 255);
 - the public packet paths (encode_ebyte / encode_usb / encode_yacht_devices -> decode_*) for
   every known single-frame encodable PGN x an addressing grid;
 - the Actisense text header over all 256 x 256 x 8 (source, destination, priority)."""
from __future__ import annotations

from .. import clientkit, common, refdb, wire
from nmea2000.decoder import NMEA2000Decoder
from nmea2000.encoder import NMEA2000Encoder

ID = "C05"


def helpers():
    """the library's identifier helpers; an exception they raise becomes a result that equals no expected value"""
    parse0 = getattr(NMEA2000Decoder, "_extract_header", None)
    build0 = getattr(NMEA2000Encoder, "_build_header", None)

    def guard(fn, arity_out):
        if fn is None:
            return None

        def g(*a):
            try:
                return fn(*a)
            except Exception as ex:  # noqa: BLE001
                r = f"raised {type(ex).__name__}: {ex}"
                return (r,) * arity_out if arity_out > 1 else r
        return g
    return guard(parse0, 4), guard(build0, 1)


def _task_ids(args):
    lo, hi, step = args
    parse, build = helpers()
    bad = []
    n = 0
    ref_parse, ref_id = wire.parse_id, wire.can_id
    for ident in range(lo, hi, step):
        n += 1
        pgn, src, dst, prio = parse(ident)
        rp, rpgn, rsrc, rdst = ref_parse(ident)
        if (pgn, src, dst, prio) != (rpgn, rsrc, rdst, rp):
            if len(bad) < 20:
                bad.append(("parse", ident, (pgn, src, dst, prio), (rpgn, rsrc, rdst, rp)))
            continue
        back = build(pgn, src, dst, prio)
        if back != ident:
            if len(bad) < 20:
                bad.append(("rebuild", ident, back, ident))
    return n, bad


def _task_idlist(ids):
    parse, build = helpers()
    bad, n = [], 0
    for ident in ids:
        n += 1
        pgn, src, dst, prio = parse(ident)
        rp, rpgn, rsrc, rdst = wire.parse_id(ident)
        if (pgn, src, dst, prio) != (rpgn, rsrc, rdst, rp):
            if len(bad) < 20:
                bad.append(("parse", ident, (pgn, src, dst, prio), (rpgn, rsrc, rdst, rp)))
            continue
        back = build(pgn, src, dst, prio)
        if back != ident and len(bad) < 20:
            bad.append(("rebuild", ident, back, ident))
    return n, bad


def _task_tuples(args):
    """build -> parse on tuples, canonical and non-canonical"""
    pfs, = args
    parse, build = helpers()
    bad, n = [], 0
    for pf in pfs:
        for dp in range(4):
            for ps in (0, 1, 0x7F, 0xFE, 0xFF):
                pgn = (dp << 16) | (pf << 8) | (ps if pf >= 240 else 0)
                for prio in range(8):
                    for src in (0, 1, 0x80, 0xFE, 0xFF):
                        for dst in (0, 1, 37, 0xFE, 0xFF):
                            n += 1
                            ident = build(pgn, src, dst, prio)
                            want = wire.can_id(prio, pgn, src, dst)
                            if ident != want:
                                if len(bad) < 20:
                                    bad.append(("build", (prio, pgn, src, dst), ident, want))
                                continue
                            got = parse(ident)
                            exp = (pgn, src, dst if pf < 240 else 255, prio)
                            if got != exp and len(bad) < 20:
                                bad.append(("build_parse", (prio, pgn, src, dst), got, exp))
    return n, bad


def _task_public(args):
    pgns, = args
    db = refdb.db()
    dec, enc = NMEA2000Decoder(), NMEA2000Encoder()
    bad, n = [], 0
    refused, accepted = {}, set()
    from .. import payloads
    for pgn in pgns:
        defn = next(d for d in db.by_pgn[pgn] if d.encodable)
        p, nb = payloads.build(defn, payloads.base_assignment(defn, "mid"))
        try:
            msg = dec.decode_basic_string(wire.plain_line(3, pgn, 7, 255, p.to_bytes(nb, "little")), already_combined=True)
        except Exception:  # noqa: BLE001
            continue
        if msg is None or msg.id != defn.id:
            continue
        pdu1 = ((pgn >> 8) & 0xFF) < 240
        for prio in (0, 3, 7):
            for src in (0, 1, 254, 255):
                for dst in (0, 37, 255):
                    msg.priority, msg.source, msg.destination = prio, src, dst
                    want = wire.can_id(prio, pgn, src, dst)
                    try:
                        pk_e = enc.encode_ebyte(msg)
                        pk_u = enc.encode_usb(msg)
                        pk_y = enc.encode_yacht_devices(msg)
                    except Exception as ex:  # noqa: BLE001
                        # the same message encoded with another addressing: a refusal that depends on priority / source / destination
                        # is an identifier problem (whether the message can be encoded at all is C02/C09's subject)
                        refused.setdefault(pgn, []).append((prio, src, dst, f"{type(ex).__name__}: {ex}"))
                        continue
                    accepted.add(pgn)
                    ids = (int.from_bytes(pk_e[0][1:5], "big"), int.from_bytes(pk_u[0][5:9], "little"), int(pk_y[0].split()[0], 16))
                    n += 3
                    if any(i != want for i in ids):
                        if len(bad) < 20:
                            bad.append(("public_identifier", (prio, pgn, src, dst), [hex(i) for i in ids], hex(want)))
                        continue
                    if defn.fast or len(db.by_pgn[pgn]) > 1:
                        continue
                    for label, back in (("ebyte", call(dec.decode_tcp, pk_e[0].ljust(13, b"\x00"))), ("usb", call(dec.decode_usb, pk_u[0])),
                                        ("yd", call(dec.decode_yacht_devices_string, "00:00:00.000 R " + pk_y[0].decode().strip()))):
                        n += 1
                        exp = (pgn, src, dst if pdu1 else 255, prio)
                        got = (back.PGN, back.source, back.destination, back.priority) if back is not None and not isinstance(back, str) else back
                        if got != exp and len(bad) < 20:
                            bad.append(("public_roundtrip:" + label, (prio, pgn, src, dst), got, exp))
    for pgn, lst in refused.items():
        if pgn in accepted and len(bad) < 20:
            prio, src, dst, why = lst[0]
            bad.append(("public_identifier", (prio, pgn, src, dst), why, "packets (the same message is encoded with other addressings)"))
    return n, bad


def call(fn, arg):
    try:
        return fn(arg)
    except Exception as ex:  # noqa: BLE001
        return f"{type(ex).__name__}: {ex}"


def _task_actisense(args):
    srcs, = args
    dec, enc = NMEA2000Decoder(), NMEA2000Encoder()
    msg = clientkit.heading_message(5)
    bad, n = [], 0
    if msg is None or msg.PGN != 127250:
        return 1, [("public_roundtrip:ebyte", "heading frame 0x09F11201", None if msg is None else msg.PGN, 127250)]
    for src in srcs:
        for dst in range(256):
            for prio in range(8):
                msg.source, msg.destination, msg.priority = src, dst, prio
                n += 1
                text = enc.encode_actisense(msg)
                hdr = text.split()[0]
                want = f"{(src << 12) | (dst << 4) | prio:05X}"
                if hdr != want:
                    if len(bad) < 20:
                        bad.append(("actisense_header", (prio, src, dst), hdr, want))
                    continue
                back = call(dec.decode_actisense_string, "A000000.000 " + text)
                got = (back.source, back.destination, back.priority, back.PGN) if back is not None and not isinstance(back, str) else back
                if got != (src, dst, prio, 127250) and len(bad) < 20:
                    bad.append(("actisense_roundtrip", (prio, src, dst), got, (src, dst, prio, 127250)))
    return n, bad


def _task_alldefs(args):
    """every definition of the database (not only one per PGN): a message decoded from frames whose identifier says
    (priority, PGN, source, destination) reports exactly those, through each frame-level format"""
    idxs, = args
    db = refdb.db()
    from .. import payloads
    bad, n = [], 0
    shared = NMEA2000Decoder()
    for di in idxs:
        defn = db.defs[di]
        p, nb = payloads.build(defn, payloads.base_assignment(defn, "mid"))
        if nb == 0 or nb > 223 or (not defn.fast and nb > 8):
            continue
        payload = p.to_bytes(nb, "little")
        pdu1 = ((defn.pgn >> 8) & 0xFF) < 240
        for prio, src, dst in ((0, 0, 0), (7, 254, 255), (3, 17, 35)):
            if not pdu1:
                dst = 255
            for ename, fn in wire.entry_points(defn.pgn, payload, defn.fast, prio=prio, src=src, dst=dst, seq=(di + prio) % 8).items():
                if ename in ("plain_combined", "plain_frames"):
                    continue
                if ename == "ebyte":
                    # the same frames once more on one long-lived decoder that has seen the same payload from other addresses
                    # (for the address claim: the same NAME moving from one source address to another)
                    back = call(fn, shared)
                    if back is not None and not isinstance(back, str):
                        n += 1
                        got = (back.PGN, back.source, back.destination, back.priority)
                        if got != (defn.pgn, src, dst, prio) and len(bad) < 20:
                            bad.append(("decoded_header:long_lived_decoder", (prio, defn.pgn, src, dst), got,
                                        f"{(defn.pgn, src, dst, prio)} (definition {back.id}; the decoder had seen the same payload from other addresses)"))
                back = call(fn, NMEA2000Decoder())
                if back is None or isinstance(back, str):
                    continue            # this payload is not decodable as such (C01's subject)
                n += 1
                got = (back.PGN, back.source, back.destination, back.priority)
                exp = (defn.pgn, src, dst, prio)
                if got != exp and len(bad) < 20:
                    bad.append(("decoded_header:" + ename, (prio, defn.pgn, src, dst), got, f"{exp} (definition {back.id})"))
    return n, bad


def _task_fast_header(args):
    """the addressing and priority a reassembled fast-packet message reports are those of ITS OWN frames' identifiers,
    whatever an earlier (truncated, orphaned or complete) transmission on the same stream carried"""
    entry, = args
    bad, n = [], 0
    payload_a = bytes([1, 0x20]) + bytes(range(40, 52))
    payload_b = bytes([1, 0x40]) + bytes(range(60, 70))

    def feed(dec, ident, data):
        if entry == "ebyte":
            return call(dec.decode_tcp, wire.ebyte_packet(ident, data))
        if entry == "usb":
            return call(dec.decode_usb, wire.usb_packet(ident, data))
        return call(dec.decode_yacht_devices_string, wire.yd_line(ident, data))
    for pgn, dsts in ((126720, (0, 9, 255)), (130816, (255,))):
        for src in (0, 5):
            for dst in dsts:
                for p1 in range(8):
                    for p2 in range(8):
                        for disturbance in ("first_frame", "continuation", "two_of_three", "complete"):
                            dec = NMEA2000Decoder()
                            id1, id2 = wire.can_id(p1, pgn, src, dst), wire.can_id(p2, pgn, src, dst)
                            fa = wire.fast_frames(2, payload_a)
                            pre = {"first_frame": fa[:1], "continuation": fa[1:2], "two_of_three": fa[:2], "complete": fa}[disturbance]
                            for fr in pre:
                                feed(dec, id1, fr)
                            back = None
                            for fr in wire.fast_frames(5, payload_b):
                                back = feed(dec, id2, fr)
                            n += 1
                            if back is None or isinstance(back, str):
                                continue          # whether the message is reassembled at all is C03/C04's subject
                            exp = (pgn, src, dst, p2)
                            got = (back.PGN, back.source, back.destination, back.priority)
                            if got != exp and len(bad) < 20:
                                bad.append(("fast_packet_header:" + entry, (p2, pgn, src, dst), got,
                                            f"{exp} (earlier transmission on the stream: {disturbance} with priority {p1})"))
    return n, bad


def _dispatch(t):
    return {"ids": _task_ids, "idlist": _task_idlist, "tuples": _task_tuples, "public": _task_public, "acti": _task_actisense, "fasthdr": _task_fast_header, "alldefs": _task_alldefs}[t[0]](t[1])


def run(ctx):
    parse, build = helpers()
    tasks = []
    direct = parse is not None and build is not None
    space = ""
    if direct:
        if ctx.thorough:
            chunk = 1 << 21
            for lo in range(0, 1 << 29, chunk):
                tasks.append(("ids", (lo, lo + chunk, 1)))
            space = "all 2^29 identifiers"
        else:
            # whole 18-bit PGN field x boundary sources x all priorities
            for prio in range(8):
                for src in (0, 0x7F, 0xFF):
                    base = (prio << 26) | src
                    tasks.append(("ids", (base, base + (1 << 26), 1 << 8)))
            # all (source, PS) pairs for boundary PF values, DP 0..3
            for pf in (0x00, 0xEE, 0xEF, 0xF0, 0xFF):
                for dp in range(4):
                    ids = [(3 << 26) | (dp << 24) | (pf << 16) | (ps << 8) | src for ps in range(256) for src in range(256)]
                    tasks.append(("idlist", ids))
            space = "2^18 PGN-field values x 3 sources x 8 priorities + all 2^16 (PS, source) pairs for PF in {00,EE,EF,F0,FF} x 4 data pages"
        for i in range(0, 256, 16):
            tasks.append(("tuples", (list(range(i, i + 16)),)))
    db = refdb.db()
    enc_pgns = sorted({d.pgn for d in db.defs if d.encodable})
    for i in range(0, len(enc_pgns), 12):
        tasks.append(("public", (enc_pgns[i:i + 12],)))
    step = 16 if ctx.thorough else 32
    for i in range(0, 256, step):
        tasks.append(("acti", (list(range(i, i + step)) if ctx.thorough else list(range(i, i + step, 2)) + [255],)))
    for entry in ("ebyte", "usb", "yd"):
        tasks.append(("fasthdr", (entry,)))
    for j in range(16):
        tasks.append(("alldefs", (list(range(len(db.defs)))[j::16],)))
    results = common.pmap(_dispatch, tasks)
    vios = []
    counts = {}
    for t, (n, bad) in zip(tasks, results):
        counts[t[0]] = counts.get(t[0], 0) + n
        for kind, inp, got, want in bad:
            vios.append({"kind": kind, "facts": {"where": t[0]}, "signature": f"{kind}:{str(inp)[:12]}",
                         "detail": f"[{kind} input={inp if not isinstance(inp, int) else hex(inp)}] got {got}, expected {want}",
                         "case": {"kind": kind, "input": inp if not isinstance(inp, tuple) else list(inp)}})
    total = sum(counts.values())
    cov = {
        "states": total, "transitions": total, "traces_validated_against_impl": total, "evaluations": total,
        "distinct_nontrivial": counts.get("ids", 0) + counts.get("idlist", 0) + counts.get("tuples", 0),
        "distinct_outcomes": 1 + len({v["kind"] for v in vios}),
        "rule": "every enumerated identifier / tuple is distinct; non-trivial = the direct parse/build cases (each a different identifier)",
        "samples": [{"identifier": hex(wire.can_id(3, 126720, 5, 9)), "parsed": list(wire.parse_id(wire.can_id(3, 126720, 5, 9)))},
                    {"identifier": hex(wire.can_id(6, 130816, 255, 17)), "parsed": list(wire.parse_id(wire.can_id(6, 130816, 255, 17)))}],
        "per_part": counts, "identifier_space": space, "direct_helpers_found": direct,
        "bound_completed": space + "; canonical + non-canonical tuples on a boundary grid; public packet paths for every encodable PGN x 36 "
                                   "addressings; every definition's base message through 4 entry points x 3 addressings; reassembled fast-packet headers after 4 kinds of earlier transmission x 8 x 8 priorities x 3 formats; Actisense header over " + ("all" if ctx.thorough else "half of the") + " sources x all destinations x 8 priorities",
        "exhaustive": True,
    }
    return {"coverage": cov, "violations": vios,
            "assumptions": ["the identifier helpers are reached directly for the bulk (they are static and stateless); the public packet "
                            "encoders/decoders are exercised on the grid, so a fault in how they use the helpers is seen too"]}


def replay(ctx, rep):
    c = rep["case"]
    parse, build = helpers()
    inp = c["input"]
    if c["kind"] in ("parse", "rebuild") and isinstance(inp, int):
        n, bad = _task_idlist([inp])
    elif c["kind"] in ("build", "build_parse"):
        prio, pgn, src, dst = inp
        ident = build(pgn, src, dst, prio)
        bad = [] if ident == wire.can_id(prio, pgn, src, dst) and parse(ident) == (pgn, src, dst if ((pgn >> 8) & 0xFF) < 240 else 255, prio) else [(c["kind"], inp, ident, None)]
    elif c["kind"].startswith("decoded_header:"):
        db = refdb.db()
        n, bad = _task_alldefs(([d.idx for d in db.by_pgn[inp[1]]],))
        bad = [b for b in bad if list(b[1]) == list(inp)][:1] or bad[:1]
    elif c["kind"].startswith("fast_packet_header:"):
        n, bad = _task_fast_header((c["kind"].split(":")[1],))
        bad = [b for b in bad if list(b[1]) == list(inp)][:1] or bad[:1]
    else:
        return []
    return [{"kind": k, "facts": {}, "detail": f"got {g} expected {w}", "case": c} for k, i, g, w in bad]
