"""C10 - PGN include/exclude filters are a pure selection of the unfiltered output.

For every filter configuration (exclude or include x every subset of up to 3 entries of a
12-entry alphabet, plus empty): explicit-state BFS to a fixed point over the product
(filtered decoder, unfiltered decoder) with a mixed event alphabet.  At every transition the
filtered decoder must return exactly what the unfiltered one returns if that message is
permitted by the three-line reference rule, else nothing."""
from __future__ import annotations

import itertools

from .. import common, wire, xstate
from nmea2000.decoder import NMEA2000Decoder

ID = "C10"

ENTRIES = [127250, 65280, 130816, 60928, "vesselHeading", "VESSELHEADING", "furunoHeave", "FurunoHeave",
           "isoAddressClaim", "ISOADDRESSCLAIM", "noSuchId", 99999,
           "sonichubInit2", "0x1FF000x1FFFFmanufacturerSpecificFastPacketNonAddressed", 126464]   # ids of two fast-packet definitions sharing PGN 130816


def events():
    hd = bytes.fromhex("0010270000ff7ffd")
    ev = {
        "hdg1": wire.ebyte_packet(wire.can_id(2, 127250, 1, 255), hd),
        "hdg2": wire.ebyte_packet(wire.can_id(2, 127250, 2, 255), bytes([9]) + hd[1:]),
        "heave": wire.ebyte_packet(wire.can_id(7, 65280, 1, 255), bytes.fromhex("3f9fdcffffffffff")),
        "prop65280": wire.ebyte_packet(wire.can_id(7, 65280, 2, 255), bytes.fromhex("e598010203040506")),
        "claim1": wire.claim_packet(1, wire.iso_name(unique=5, mfr=1855)),
        "claim2": wire.claim_packet(2, wire.iso_name(unique=6, mfr=229)),
        # the same sources claim again with another NAME (a unit was swapped): the identity attached to
        # later messages must follow the latest claim whether or not the claim itself is delivered
        "claim1b": wire.claim_packet(1, wire.iso_name(unique=7, mfr=229, function=140, dev_class=10)),
        "claim2b": wire.claim_packet(2, wire.iso_name(unique=8, mfr=1855, function=150, dev_class=40)),
        "claim2as1": wire.claim_packet(2, wire.iso_name(unique=5, mfr=1855)),      # the NAME source 1 claims, now from source 2 (the device moved)
    }
    # the same kinds of traffic through the entry points that take text: a single frame as a Yacht Devices line,
    # a single frame and a pre-assembled fast-packet message as Actisense records
    ev["hdgY"] = ("yd", wire.yd_line(wire.can_id(2, 127250, 2, 255), bytes([7]) + hd[1:]))
    ev["hdgA"] = ("actisense", wire.actisense_line(2, 255, 1, 127250, bytes([8]) + hd[1:]))
    ev["fastA"] = ("actisense", wire.actisense_line(3, 255, 1, 130816, bytes.fromhex("1389550180fe7ffe7f")))
    # PGN 126464 (0x1EE00, fast packet) differs from the address claim (0x0EE00) in the data-page bit only
    pl = wire.fast_frames(2, bytes([0]) + (127250).to_bytes(3, "little") + (60928).to_bytes(3, "little"))
    ev["pl0"] = wire.ebyte_packet(wire.can_id(6, 126464, 2, 255), pl[0])
    ev["pl1"] = wire.ebyte_packet(wire.can_id(6, 126464, 2, 255), pl[1])
    fr = wire.fast_frames(3, bytes([0x02, 0x00]) + bytes(range(10, 17)))
    ident = wire.can_id(3, 130816, 1, 255)
    ev["f0"] = wire.ebyte_packet(ident, fr[0])
    ev["f1"] = wire.ebyte_packet(ident, fr[1])
    # another definition of the same PGN on the same stream, carrying the same sequence counter
    # (sonichubInit2, 9 bytes): a filtered message must leave nothing behind that could swallow it
    gr = wire.fast_frames(3, bytes.fromhex("1389550180fe7ffe7f"))
    ev["g0"] = wire.ebyte_packet(ident, gr[0])
    ev["g1"] = wire.ebyte_packet(ident, gr[1])
    return ev


def permitted(mode, entries, msg):
    nums = [e for e in entries if isinstance(e, int)]
    ids = [e.lower() for e in entries if isinstance(e, str)]
    listed = msg.PGN in nums or msg.id.lower() in ids
    if mode == "exclude":
        return not listed
    if not entries:
        return True
    return listed


def common_kw(extra):
    from nmea2000.consts import PhysicalQuantities as PQ
    return {"plain": {}, "map": {"build_network_map": True},
            "units+mfr": {"preferred_units": {PQ.ANGLE: "deg"}, "exclude_manufacturer_code": ["Garmin"]}}[extra]


class Pair:
    def __init__(self, mode, entries, extra="plain"):
        kw = {"exclude_pgns": list(entries)} if mode == "exclude" else {"include_pgns": list(entries)}
        # an application keeps its filter list in one object and builds several decoders from it (one per gateway):
        # the decoder under test is the second one built from the same list object
        NMEA2000Decoder(**kw, **common_kw(extra))
        self.f = NMEA2000Decoder(**kw, **common_kw(extra))
        self.u = NMEA2000Decoder(**common_kw(extra))


def step_pair(s, packet):
    def one(d):
        try:
            if isinstance(packet, tuple):
                return (d.decode_yacht_devices_string if packet[0] == "yd" else d.decode_actisense_string)(packet[1]), None
            return d.decode_tcp(packet), None
        except Exception as ex:  # noqa: BLE001
            return None, f"{type(ex).__name__}: {ex}"
    return one(s.f), one(s.u)


def run_config(args):
    mode, entries, max_states = args[:3]
    extra = args[3] if len(args) > 3 else "plain"
    evs = events()
    names = list(evs)

    def enabled(s):
        return names

    def step(s, name):
        (mf, ef), (mu, eu) = step_pair(s, evs[name])
        if eu is not None:
            return [] if mf is None else [viol("filtered_returns_where_unfiltered_fails", name, f"unfiltered raised {eu}")]
        if ef is not None:
            return [viol("filtered_decoder_raises", name, ef)]
        want = mu if (mu is not None and permitted(mode, entries, mu)) else None
        a, b = common.msg_view(mf), common.msg_view(want)
        if a == b:
            return []
        if want is None:
            return [viol("not_filtered", name, f"returned {mf.PGN} {mf.id} although the configuration does not permit it", mf)]
        if mf is None:
            return [viol("wrongly_filtered", name, f"dropped {mu.PGN} {mu.id} although the configuration permits it", mu)]
        diff = [i for i, (x, y) in enumerate(zip(a, b)) if x != y]
        what = ["PGN", "id", "description", "ttl", "source", "destination", "priority", "fields", "identity", "hash"][diff[0]]
        return [viol("content_changed", name, f"{mu.PGN} {mu.id}: {what} differs between filtered and unfiltered decoder", mu)]

    def viol(kind, name, detail, msg=None):
        facts = {"mode": mode, "entry_kinds": sorted({"number" if isinstance(e, int) else "id" for e in entries})}
        if msg is not None:
            facts["by_number"] = msg.PGN in [e for e in entries if isinstance(e, int)]
            facts["by_id"] = msg.id.lower() in [e.lower() for e in entries if isinstance(e, str)]
            facts["claim"] = msg.PGN == 60928
        return {"kind": kind, "facts": dict(facts, options=extra), "detail": f"[{mode} {list(entries)} options={extra} event {name}] {detail}",
                "signature": f"{kind}:{mode}:{facts.get('entry_kinds')}:{facts.get('by_number')}:{facts.get('by_id')}:{facts.get('claim')}",
                "case": {"mode": mode, "entries": list(entries), "extra": extra}}

    def key(s):
        return common.canon_key([s.f, s.u])

    def nontrivial(s):
        return len(getattr(s.u, "source_to_iso_name", ())) > 0 or len(getattr(s.u, "data", ())) > 0 if hasattr(s.u, "data") else True

    res = xstate.bfs(Pair(mode, entries, extra), enabled, step, key, max_states=max_states, nontrivial=nontrivial, stop_after=6)
    long_n = args[4] if len(args) > 4 else 0
    if long_n and not res.violations:
        # a long-lived decoder: the N-th occurrence of an input is filtered like the first (round-robin over the alphabet,
        # then every event repeated on its own); beyond the reach of the fixed-point search only if the decoder counts
        pair = Pair(mode, entries, extra)
        order = [names[i % len(names)] for i in range(long_n)] + [n for n in names for _ in range(long_n // 2)]
        for i, name in enumerate(order):
            v = step(pair, name)
            res.transitions += 1
            if v:
                for x in v:
                    x = dict(x)
                    x["facts"] = dict(x.get("facts", {}), mechanism="depends_on_occurrence_count")
                    x["detail"] += f" (input number {i + 1} of a long run on one decoder)"
                    x["case"] = dict(x.get("case", {}), long_run=i + 1)
                    res.violations.append(x)
                break
    return {"states": res.states, "transitions": res.transitions, "depth": res.max_depth, "closed": res.closed, "cap": res.cap_hit,
            "nontrivial": res.nontrivial, "violations": res.violations, "sample": res.samples[:1]}


def configs(ctx):
    kmax = 3 if ctx.thorough else 2
    out = [("exclude", ()), ("include", ())]
    for k in range(1, kmax + 1):
        for combo in itertools.combinations(ENTRIES, k):
            out.append(("exclude", combo))
            out.append(("include", combo))
    return out


def run(ctx):
    cfgs = [(m, e, "plain") for m, e in configs(ctx)]
    for extra in ("map", "units+mfr"):
        cfgs += [(m, e, extra) for m, e in configs(ctx) if len(e) <= (2 if ctx.thorough else 1)]
    # the long run (2200 inputs round-robin, then 1100 of each event) on the empty and the single-entry configurations
    results = common.pmap(run_config, [(m, e, 20000, x, 2200 if (len(e) <= 1 and x == "plain") else 0) for m, e, x in cfgs], chunksize=2)
    vios = []
    states = trans = nontriv = 0
    closed = True
    depth = 0
    samples = []
    for (m, e, _x), r in zip(cfgs, results):
        vios += r["violations"]
        states += r["states"]
        trans += r["transitions"]
        nontriv += r["nontrivial"]
        depth = max(depth, r["depth"])
        closed = closed and (r["closed"] or bool(r["violations"]))
        if r["sample"] and len(samples) < 3 and e:
            samples.append({"mode": m, "entries": [str(x) for x in e], "history": r["sample"][0]})
    cov = {
        "states": states, "transitions": trans, "traces_validated_against_impl": 2 * trans, "evaluations": trans,
        "distinct_nontrivial": nontriv, "distinct_outcomes": 1 + len({v["kind"] for v in vios}),
        "rule": "BFS states of (filtered decoder, unfiltered decoder) per configuration; every transition feeds one event to both; "
                "non-trivial = a state in which a source has claimed or a fast-packet message is partly received",
        "samples": samples, "configurations": len(cfgs), "max_depth": depth,
        "bound_completed": f"fixed point in every configuration, plus a run of 2200 + 19 x 1100 inputs on one decoder for the empty and single-entry configurations; configurations = exclude/include x all subsets of <= {3 if ctx.thorough else 2} of 15 entries + empty",
        "exhaustive": closed,
    }
    return {"coverage": cov, "violations": vios,
            "assumptions": ["reference filter: not listed (exclude) / listed or list empty (include); listed = PGN number in the list or id in the list compared case-insensitively"]}


def replay(ctx, rep):
    c = rep["case"]
    entries = tuple(c["entries"])
    evs = events()
    if c.get("long_run"):
        r = run_config((c["mode"], entries, 10, c.get("extra", "plain"), 2200))
        return [v for v in r["violations"] if v.get("case", {}).get("long_run")][:1]
    s = Pair(c["mode"], entries, c.get("extra", "plain"))
    for name in c["history"]:
        (mf, ef), (mu, eu) = step_pair(s, evs[name])
        want = mu if (mu is not None and permitted(c["mode"], entries, mu)) else None
        if common.msg_view(mf) != common.msg_view(want):
            return [{"kind": rep.get("kind", "mismatch"), "facts": rep.get("facts", {}), "detail": f"event {name}: filtered {getattr(mf, 'id', None)} vs expected {getattr(want, 'id', None)}", "case": c}]
    return []
