"""C02 - decoding then re-encoding a payload reproduces it on all defined bits.

For every encodable definition: the C01 payload space restricted to payloads the decoder
accepts, plus every raw value of fields up to N bits; decode -> encode through the public
encoder and compare under the union mask of the definition's fields."""
from __future__ import annotations

import math
import struct

from .. import common, payloads, refdb, wire
from .c01 import enumerate_cases
from nmea2000.decoder import NMEA2000Decoder
from nmea2000.encoder import NMEA2000Encoder

ID = "C02"


def decode(dec, pgn, p, n):
    try:
        return dec.decode_basic_string(wire.plain_line(3, pgn, 7, 255, p.to_bytes(n, "little")), already_combined=True)
    except Exception:  # noqa: BLE001
        return None


def encode_payload(enc, msg, use_ebyte=False):
    if use_ebyte:
        pk = enc.encode_ebyte(msg)
        if len(pk) == 1:
            return pk[0][5:5 + (pk[0][0] & 0x0F)]
    s = enc.encode_actisense(msg)
    return bytes.fromhex(s.split()[2]) if len(s.split()) > 2 else b""


def compare(defn, p, n, out_bytes):
    """bitwise comparison under the field masks -> list of (kind, facts, detail)"""
    res = []
    if defn.length is not None and len(out_bytes) != defn.length:
        res.append(("wrong_length", {"definition": defn.id}, f"encoded {len(out_bytes)} bytes, definition length {defn.length}"))
    q = int.from_bytes(out_bytes, "little")
    for f in defn.fields:
        m = (1 << f.bits) - 1
        a, b = (p >> f.offset) & m, (q >> f.offset) & m
        if a == b:
            continue
        if f.type == "FLOAT":
            fa = struct.unpack("<f", struct.pack("<I", a))[0]
            if not math.isfinite(fa):
                continue
        if f.bits > 48:
            tol = 1 << max(f.bits - 52, 0)
            if abs(f.to_signed(a) - f.to_signed(b)) <= tol:
                continue
        cause = "other"
        if f.type in ("TIME", "DURATION", "DATE"):
            if a == f.sentinel():
                cause = "absent_not_preserved"
            elif abs(f.to_signed(a) - f.to_signed(b)) == 1:
                cause = "one_tick"
        elif f.type in refdb.NUMERIC and a == f.sentinel():
            cause = "absent_not_preserved"
        res.append(("bits_differ", {"definition": defn.id, "field": f.id, "type": f.type, "cause": cause},
                    f"field {f.id} ({f.type}, {f.bits} bits at {f.offset}{', signed' if f.signed else ''}): raw {a} re-encoded as {b}"))
    return res


def _task(args):
    idxs, k, narrow, seed = args
    db = refdb.db()
    dec, enc = NMEA2000Decoder(), NMEA2000Encoder()
    vios = []
    st = {"cases": 0, "roundtrips": 0, "nontrivial": 0, "defs": 0}
    sample = None
    for di in idxs:
        defn = db.defs[di]
        st["defs"] += 1
        per_def = 0
        for label, p, n in enumerate_cases(defn, 2, narrow, seed, payloads.BASES, k2_bases=("mid", "ones") if k == 2 else ("mid",)):
            st["cases"] += 1
            msg = decode(dec, defn.pgn, p, n)
            if msg is None or msg.id != defn.id:
                continue
            st["roundtrips"] += 1
            if label[1]:
                st["nontrivial"] += 1
            try:
                out = encode_payload(enc, msg, use_ebyte=(st["roundtrips"] % 11 == 0 and not defn.fast))
                res = compare(defn, p, n, out)
            except Exception as ex:  # noqa: BLE001
                wide = any(f.bits > 48 or f.type == "FLOAT" for f in defn.fields)
                cause = "assertion" if isinstance(ex.__cause__, AssertionError) or "AssertionError" in repr(ex) or str(ex) == "" else "error"
                res = [("encode_failed", {"definition": defn.id, "error": type(ex).__name__, "cause": cause, "wide_or_float": wide},
                        f"decoded message could not be re-encoded: {type(ex).__name__}: {ex}")]
                if wide and "out of range" in str(ex):
                    res = []      # last representable step of a >48-bit field / non-finite float: accepted (DESIGN 2.1)
            if res and per_def < 30:
                for kind, facts, detail in res:
                    per_def += 1
                    vios.append({"kind": kind, "facts": facts,
                                 "signature": f"{kind}:{defn.pgn}:{defn.id}:{facts.get('field')}:{facts.get('cause')}",
                                 "detail": f"[PGN {defn.pgn} {defn.id} base={label[0]} changed={list(label[1])} payload={p.to_bytes(n, 'little').hex()}] {detail}",
                                 "case": {"pgn": defn.pgn, "definition": defn.id, "payload_hex": p.to_bytes(n, "little").hex()}})
            if sample is None and label[1]:
                sample = {"pgn": defn.pgn, "definition": defn.id, "payload_hex": p.to_bytes(n, "little").hex(),
                          "changed_fields": list(label[1])}
    return st, vios, sample


def _task_history(args):
    """one decoder and ONE encoder for all definitions of a PGN, forward / backward / again: a per-PGN
    cache of the encode function (or of anything else) keyed too coarsely shows here"""
    pgns, = args
    db = refdb.db()
    dec, enc = NMEA2000Decoder(), NMEA2000Encoder()
    vios = []
    st = {"cases": 0, "roundtrips": 0, "nontrivial": 0, "defs": 0}
    for pgn in pgns:
        ds = [d for d in db.by_pgn[pgn] if d.encodable]
        if not ds:
            continue
        seq = []
        for d in ds:
            for b in ("mid", "max"):
                p, n = payloads.build(d, payloads.base_assignment(d, b))
                seq.append((d, b, p, n))
        for order, items in (("forward", seq), ("backward", seq[::-1]), ("again", seq)):
            for d, b, p, n in items:
                st["cases"] += 1
                msg = decode(dec, pgn, p, n)
                if msg is None or msg.id != d.id:
                    continue
                st["roundtrips"] += 1
                st["nontrivial"] += 1
                try:
                    res = compare(d, p, n, encode_payload(enc, msg))
                except Exception as ex:  # noqa: BLE001
                    res = [("encode_failed", {"definition": d.id, "error": type(ex).__name__, "cause": "error"}, f"{type(ex).__name__}: {ex}")]
                    if any(f.bits > 48 or f.type == "FLOAT" for f in d.fields) and "out of range" in str(ex):
                        res = []      # last representable step of a >48-bit field / non-finite float (DESIGN 2.1)
                for kind, facts, detail in res:
                    if len(vios) < 40:
                        vios.append({"kind": kind, "facts": dict(facts, mechanism="depends_on_history"), "signature": f"hist:{kind}:{pgn}:{d.id}",
                                     "detail": f"[PGN {pgn} {d.id} base={b}, {order} pass over the PGN's definitions on one encoder] {detail}",
                                     "case": {"pgn": pgn, "definition": d.id, "payload_hex": p.to_bytes(n, "little").hex()}})
    return st, vios, None


def _dispatch(t):
    return _task(t[1]) if t[0] == "enum" else _task_history(t[1])


def run(ctx):
    db = refdb.db()
    enc_defs = [d.idx for d in db.defs if d.encodable]
    k = 2 if ctx.thorough else 1
    narrow = 16 if ctx.thorough else 10
    order = sorted(enc_defs, key=lambda i: -len(db.defs[i].fields))
    nb = 131 if ctx.thorough else 64
    buckets = [[] for _ in range(nb)]
    for j, i in enumerate(order):
        buckets[j % nb].append(i)
    tasks = [("enum", (b, k, narrow, ctx.seed)) for b in buckets if b]
    allp = sorted(db.by_pgn)
    for i in range(4):
        tasks.append(("hist", (allp[i::4],)))
    results = common.pmap(_dispatch, tasks)
    vios, samples = [], []
    tot = {"cases": 0, "roundtrips": 0, "nontrivial": 0, "defs": 0}
    for st, v, s in results:
        vios += v
        for key in tot:
            tot[key] += st[key]
        if s and len(samples) < 4:
            samples.append(s)
    cov = {
        "states": tot["cases"], "transitions": tot["roundtrips"], "traces_validated_against_impl": tot["roundtrips"],
        "evaluations": tot["cases"], "distinct_nontrivial": tot["nontrivial"],
        "distinct_outcomes": len({v["kind"] for v in vios}) + 1,
        "rule": "cases = distinct payloads of the C01 enumeration for the encodable definitions; transitions = payloads the decoder "
                "accepted and that were re-encoded and compared; non-trivial = accepted payloads with at least one field off its base",
        "samples": samples, "encodable_definitions": tot["defs"],
        "bound_completed": f"<=1 deviating field from all 5 bases, <=2 from base {'mid and ones' if k == 2 else 'mid'}, every raw of fields <= {narrow} bits",
        "exhaustive": True,
    }
    return {"coverage": cov, "violations": vios,
            "assumptions": ["bit layout (offset, length, signedness) taken from canboat.json",
                            "fields wider than 48 bits compared within 2^(bits-52) raw units; non-finite floats excepted (as the property states)"]}


def replay(ctx, rep):
    c = rep["case"]
    db = refdb.db()
    defn = db.by_id[(c["pgn"], c["definition"])]
    data = bytes.fromhex(c["payload_hex"])
    p = int.from_bytes(data, "little")
    msg = decode(NMEA2000Decoder(), c["pgn"], p, len(data))
    if msg is None or msg.id != defn.id:
        return []
    try:
        res = compare(defn, p, len(data), encode_payload(NMEA2000Encoder(), msg))
    except Exception as ex:  # noqa: BLE001
        res = [("encode_failed", {"definition": defn.id, "error": type(ex).__name__}, f"{type(ex).__name__}: {ex}")]
    return [{"kind": k, "facts": f, "detail": d, "case": c} for k, f, d in res]
