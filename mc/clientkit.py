"""Standard traffic for the client checks, rendered per gateway kind, plus the
reference framing of a byte stream into packets (written from the format
descriptions) and the decoder entry point that belongs to each kind."""
from __future__ import annotations

from . import common  # noqa: F401  (must come first: puts the tree under test on sys.path)
from . import wire
from nmea2000.decoder import NMEA2000Decoder

HEADING_PGN = 127250


def heading_data(sid, heading_raw=10000):
    return bytes([sid]) + heading_raw.to_bytes(2, "little") + b"\x00\x00" + b"\xff\x7f" + b"\xfd"


def render_frame(kind, ident, data):
    """One CAN frame as the gateway of this kind would send it to the client."""
    if kind == "ebyte":
        return wire.ebyte_packet(ident, data)
    if kind == "waveshare":
        return wire.usb_packet(ident, data)
    if kind == "yd":
        return (wire.yd_line(ident, data) + "\r\n").encode()
    raise ValueError(kind)


def render_message(kind, prio, pgn, src, dst, payload, fast, seq=0, pad=None):
    """A whole message: list of packets (bytes).  Actisense carries assembled payloads."""
    if kind == "actisense":
        return [(wire.actisense_line(prio, dst, src, pgn, payload) + "\r\n").encode()]
    ident = wire.can_id(prio, pgn, src, dst)
    if not fast:
        return [render_frame(kind, ident, payload)]
    return [render_frame(kind, ident, f) for f in wire.fast_frames(seq, payload, pad)]


def fast_payload(tag, length=9):
    b = bytes([(tag * 16 + 3 + 7 * p) % 251 + 1 for p in range(length)])
    return bytes([1 + (tag & 3), 0x00]) + b[2:]


def std(kind):
    """name -> packet bytes"""
    out = {}
    for i, name in enumerate(("A", "A2", "PROBE", "PROBE2", "PROBE3", "PROBE4")):
        out[name] = render_message(kind, 2, HEADING_PGN, 1 + (i % 3), 255, heading_data(10 + i, 10000 + 100 * i), False)[0]
    b = render_message(kind, 3, 126720, 5, 255, fast_payload(1), True, seq=2)
    if len(b) == 2:
        out["B1"], out["B2"] = b
    else:
        out["B1"] = b[0]
        out["B2"] = b""
    # unknown PGN (no definition): 0x1F7FF = 129023? use a PGN that has no decoder: 65000
    out["UNK"] = render_message(kind, 6, 65000, 9, 255, bytes(range(1, 9)), False)[0]
    # malformed per kind
    if kind == "ebyte":
        out["BAD"] = wire.ebyte_packet(wire.can_id(3, 126720, 5, 255), b"")           # fast PGN, no data bytes
    elif kind == "waveshare":
        p = bytearray(out["A"])
        p[19] ^= 0x5A
        out["BAD"] = bytes(p)                                                          # bad checksum
    elif kind == "yd":
        out["BAD"] = b"garbage line without structure\r\n"
    else:
        out["BAD"] = b"Zxx not an actisense line\r\n"
    # well framed, but the library's decoder raises on it (each kind with an exception type other than ValueError where one exists)
    if kind == "ebyte":
        out["RAISE"] = wire.ebyte_packet(wire.can_id(3, 126720, 5, 255), b"\x00")                 # IndexError
    elif kind == "waveshare":
        out["RAISE"] = wire.usb_packet(wire.can_id(3, 126720, 5, 255), b"")                        # IndexError
    elif kind == "yd":
        out["RAISE"] = (wire.yd_line(wire.can_id(3, 126720, 5, 255), b"\x00") + "\r\n").encode()    # IndexError
    else:
        out["RAISE"] = (wire.actisense_line(3, 255, 5, 126208, bytes([1, 0, 0xED, 1, 2, 3, 4, 5])) + "\r\n").encode()   # bare Exception
    return out


def decode_one(dec: NMEA2000Decoder, kind, packet: bytes):
    """What the decoder of this kind returns for one reference-framed packet (exceptions -> None)."""
    try:
        if kind == "ebyte":
            return dec.decode_tcp(packet)
        if kind == "waveshare":
            return dec.decode_usb(packet)
        line = packet.decode("utf-8", errors="ignore").strip()
        if kind == "yd":
            return dec.decode_yacht_devices_string(line)
        return dec.decode_actisense_string(line)
    except Exception:  # noqa: BLE001
        return None


def heading_message(sid=77):
    """A decoded heading message object suitable for client.send()."""
    dec = NMEA2000Decoder()
    return dec.decode_tcp(wire.ebyte_packet(wire.can_id(2, HEADING_PGN, 1, 255), heading_data(sid)))


GNSS_HEX = ("E7953D0073D629C0D90473DBC9E505807D02285FD610F69B506C050000000013FC086F00BE00DDF2FFFF00FFFFFFFF")


def gnss_message():
    """129029 GNSS Position Data: 43 bytes -> 7 fast-packet frames."""
    return NMEA2000Decoder().decode_actisense_string("A000000.000 00FF3 1F805 " + GNSS_HEX)


def iso_request_message():
    """59904 ISO Request: one frame with 3 data bytes."""
    return NMEA2000Decoder().decode_tcp(wire.ebyte_packet(wire.can_id(6, 59904, 7, 255), bytes.fromhex("00ee00")))


def fast2_message():
    """130578 Vessel Speed Components: 12 bytes -> 2 fast-packet frames."""
    return NMEA2000Decoder().decode_actisense_string("A000000.000 09FF2 1FE12 " + "0100020003000400050006 00".replace(" ", ""))


def bad_messages():
    m1 = heading_message(1)
    m1.fields = [f for f in m1.fields if f.id != "deviation"]          # missing field
    m2 = heading_message(2)
    for f in m2.fields:
        if f.id == "heading":
            f.value = 1000.0                                          # far out of range
            f.raw_value = 1000.0
    m3 = heading_message(3)
    m3.PGN = 65000                                                    # no such definition
    m3.id = "noSuchPgn"
    return {"missing_field": m1, "out_of_range": m2, "unknown_pgn": m3}
