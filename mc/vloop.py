"""Virtual asyncio event loop, fake gateway built from the *real* asyncio stream
classes, and a deterministic session driver whose executions are a function of a
list of deviations (special events injected at chosen loop-iteration boundaries).

Nothing here imports from the library except the client classes under test."""
from __future__ import annotations

import asyncio
import gc
import heapq
import signal
import threading
from asyncio import events

import serial_asyncio

from . import common  # noqa: F401  (must come first: puts the tree under test on sys.path)
import nmea2000.ioclient as ioclient
from nmea2000.ioclient import (ActisenseNmea2000Gateway, EByteNmea2000Gateway, State,
                               WaveShareNmea2000Gateway, YachtDevicesNmea2000Gateway)

KINDS = ("ebyte", "actisense", "yd", "waveshare")
CLIENTS = {"ebyte": EByteNmea2000Gateway, "actisense": ActisenseNmea2000Gateway,
           "yd": YachtDevicesNmea2000Gateway, "waveshare": WaveShareNmea2000Gateway}

READ_BUDGET = 2000          # reads by one loop handle without returning to the loop
BUSY_BUDGET = 20000         # loop iterations without the clock advancing
WATCHDOG_S = 20.0


class LivelockDetected(BaseException):
    pass


class WatchdogTimeout(KeyboardInterrupt):      # asyncio lets KeyboardInterrupt through tasks and handles; other BaseExceptions become task results
    pass


class HarnessError(Exception):
    pass


class VirtualLoop(asyncio.BaseEventLoop):
    def __init__(self):
        super().__init__()
        self._vt = 0.0
        self._clock_resolution = 1e-9
        self.iterations = 0

    def time(self):
        return self._vt

    def _process_events(self, event_list):
        pass

    def _write_to_self(self):
        pass

    # -- manual driving ----------------------------------------------------
    def _move_due_timers(self):
        end_time = self._vt + self._clock_resolution
        while self._scheduled:
            h = self._scheduled[0]
            if h._cancelled:
                heapq.heappop(self._scheduled)
                h._scheduled = False
                continue
            if h._when >= end_time:
                break
            heapq.heappop(self._scheduled)
            h._scheduled = False
            self._ready.append(h)

    def has_ready(self):
        self._move_due_timers()
        return any(not h._cancelled for h in self._ready)

    def next_timer(self):
        while self._scheduled and self._scheduled[0]._cancelled:
            h = heapq.heappop(self._scheduled)
            h._scheduled = False
        return self._scheduled[0]._when if self._scheduled else None

    def run_iteration(self):
        """Exactly asyncio's granularity: run the handles that are ready now;
        handles they add run in the next iteration."""
        self._move_due_timers()
        n = len(self._ready)
        for _ in range(n):
            h = self._ready.popleft()
            if h._cancelled:
                continue
            h._run()
        self.iterations += 1

    def advance_to(self, t):
        if t > self._vt:
            self._vt = t


def install_loop():
    loop = VirtualLoop()
    loop._thread_id = threading.get_ident()
    events._set_running_loop(loop)
    return loop


def uninstall_loop(loop):
    events._set_running_loop(None)
    loop._thread_id = None
    try:
        loop.close()
    except Exception:  # noqa: BLE001
        pass


# --------------------------------------------------------------------------
# fake gateway

class CountingStreamReader(asyncio.StreamReader):
    gw = None

    def _count(self):
        g = self.gw
        g.reads_in_handle += 1
        g.reads_total += 1
        if g.reads_in_handle > READ_BUDGET:
            g.livelock = True
            raise LivelockDetected()

    async def read(self, n=-1):
        self._count()
        self.gw.outstanding += 1
        try:
            return await super().read(n)
        finally:
            self.gw.outstanding -= 1

    async def readline(self):
        self._count()
        self.gw.outstanding += 1
        try:
            return await super().readline()
        finally:
            self.gw.outstanding -= 1

    async def readexactly(self, n):
        self._count()
        self.gw.outstanding += 1
        try:
            return await super().readexactly(n)
        finally:
            self.gw.outstanding -= 1

    async def readuntil(self, separator=b"\n"):
        # readline() is implemented on top of readuntil(); only count direct calls once
        return await super().readuntil(separator)


class FakeTransport(asyncio.Transport):
    def __init__(self, gw, conn, protocol, loop):
        super().__init__()
        self.gw, self.conn, self._protocol, self._loop = gw, conn, protocol, loop
        self._closing = False
        self._lost = False
        self._paused_by_us = False

    # -- asyncio.Transport API --------------------------------------------
    def get_extra_info(self, name, default=None):
        return default

    def is_closing(self):
        return self._closing

    def set_protocol(self, protocol):
        self._protocol = protocol

    def get_protocol(self):
        return self._protocol

    def pause_reading(self):
        self.conn.reading_paused = True

    def resume_reading(self):
        self.conn.reading_paused = False

    def is_reading(self):
        return not self.conn.reading_paused and not self._closing

    def get_write_buffer_size(self):
        return 0

    def can_write_eof(self):
        return False

    def write(self, data):
        if not isinstance(data, (bytes, bytearray, memoryview)):
            raise TypeError(f"data argument must be a bytes-like object, not {type(data).__name__!r}")
        if self._closing or self._lost:
            self.conn.writes_after_close += 1
            return
        g = self.gw
        idx = g.write_count
        g.write_count += 1
        if g.fail_write_armed or (g.fail_policy is not None and g.fail_policy(idx)):
            g.fail_write_armed = False
            self.conn.write_failed_at = idx
            g.log.append(("write_failed", self.conn.cid, idx, round(self._loop.time(), 6)))
            self.conn.write_failed_t = self._loop.time()
            exc = g.write_error() if g.write_error else OSError(32, "Broken pipe (injected)")
            if g.write_error_sync:
                # the transport reports the failure to the caller of write() only; the read side stays up
                raise exc
            self._force_close(exc)
            return
        self.conn.written.append(bytes(data))
        g.log.append(("write", self.conn.cid, bytes(data).hex()))
        if g.pause_policy is not None and g.pause_policy(idx) and not self.conn.paused:
            # like a real transport crossing its high-water mark: the protocol is paused once,
            # further writes are simply buffered until the environment drains the buffer
            self._paused_by_us = True
            self.conn.paused = True
            self._protocol.pause_writing()

    def writelines(self, list_of_data):
        self.write(b"".join(list_of_data))

    def close(self):
        if self._closing:
            return
        self._closing = True
        self.conn.closed_by_client = True
        self.gw.log.append(("client_close", self.conn.cid))
        self._loop.call_soon(self._call_connection_lost, None)

    def abort(self):
        self._force_close(None)

    def _force_close(self, exc):
        if self._lost:
            return
        self._closing = True
        self._loop.call_soon(self._call_connection_lost, exc)

    def _call_connection_lost(self, exc):
        if self._lost:
            return
        self._lost = True
        self.conn.lost = True
        try:
            self._protocol.connection_lost(exc)
        finally:
            pass

    # -- environment side --------------------------------------------------
    def env_feed(self, data):
        if self._lost or self._closing:
            return False
        self._protocol.data_received(data)
        return True

    def env_eof(self):
        if self._lost or self._closing:
            return False
        self.conn.eof_sent = True
        keep_open = self._protocol.eof_received()
        if not keep_open:
            self.close()
        return True

    def env_reset(self, exc=None):
        if self._lost:
            return False
        self.conn.reset = True
        # like a selector transport whose recv() failed: _fatal_error -> _force_close ->
        # call_soon(connection_lost).  connection_lost therefore never runs in the same loop
        # iteration as a preceding data_received (the reader task woken by the data runs first).
        self._force_close(exc or ConnectionResetError(104, "Connection reset by peer (injected)"))
        return True

    def env_resume(self):
        if self.conn.paused and not self._lost:
            self.conn.paused = False
            self._protocol.resume_writing()
            return True
        return False


class Conn:
    def __init__(self, cid, t):
        self.cid, self.opened_at = cid, t
        self.written = []
        self.transport = None
        self.reader = None
        self.closed_by_client = False
        self.lost = False
        self.eof_sent = False
        self.reset = False
        self.paused = False
        self.reading_paused = False
        self.writes_after_close = 0
        self.write_failed_at = None

    @property
    def alive(self):
        return not (self.lost or self.closed_by_client or self.reset)


class Attempt:
    def __init__(self, t, fut):
        self.t, self.fut = t, fut
        self.outcome = None
        self.resolved_at = None


class FakeGateway:
    """Replaces asyncio.open_connection / serial_asyncio.open_serial_connection."""

    def __init__(self, loop):
        self.loop = loop
        self.attempts = []
        self.conns = []
        self.log = []
        self.reads_in_handle = 0
        self.reads_total = 0
        self.outstanding = 0
        self.max_outstanding = 0
        self.livelock = False
        self.write_count = 0
        self.fail_write_armed = False
        self.pause_policy = None
        self.refuse_budget = 0        # how many further attempts the default policy refuses
        self.refuse_kind = "refuse"
        self.connect_raises = None    # exception type the factory raises synchronously
        self.fail_policy = None
        self.write_error_sync = False
        self.write_error = None       # factory for the exception a failing write reports (default: broken pipe)

    # the two factories --------------------------------------------------
    async def open_connection(self, host=None, port=None, **kw):
        if host == "down.invalid":
            return await self._down()
        return await self._open(limit=kw.get("limit", 2 ** 16))

    async def open_serial_connection(self, **kw):
        if kw.get("url") == "/dev/down":
            return await self._down()
        return await self._open(limit=kw.get("limit", 2 ** 16))

    async def _down(self):
        """the gateway of a bystander client (another client object in the same event loop): never reachable"""
        self.down_attempts = getattr(self, "down_attempts", 0) + 1
        await asyncio.sleep(0)
        raise ConnectionRefusedError(111, "Connection refused (bystander's gateway is down)")

    async def _open(self, limit=2 ** 16):
        fut = self.loop.create_future()
        att = Attempt(self.loop.time(), fut)
        self.attempts.append(att)
        self.log.append(("attempt", round(self.loop.time(), 6)))
        outcome = await fut
        if outcome == "refuse":
            raise ConnectionRefusedError(111, "Connection refused (injected)")
        if outcome == "unreachable":
            raise OSError(113, "No route to host (injected)")                 # an OSError that is not a ConnectionError
        if outcome == "timeout":
            raise TimeoutError("connect timed out (injected)")
        if outcome == "dns":
            import socket
            raise socket.gaierror(-2, "Name or service not known (injected)")     # an OSError whose errno is not an errno code
        if outcome == "noport":
            import serial
            raise serial.SerialException(2, "could not open port (injected)")
        if outcome != "accept":
            raise HarnessError(f"unknown connect outcome {outcome}")
        conn = Conn(len(self.conns), self.loop.time())
        self.conns.append(conn)
        reader = CountingStreamReader(limit=limit, loop=self.loop)      # the stream limit the client asked for (asyncio's default is 64 KiB)
        reader.gw = self
        protocol = asyncio.StreamReaderProtocol(reader, loop=self.loop)
        transport = FakeTransport(self, conn, protocol, self.loop)
        protocol.connection_made(transport)
        writer = asyncio.StreamWriter(transport, protocol, reader, self.loop)
        conn.transport, conn.reader = transport, reader
        self.log.append(("accepted", conn.cid, round(self.loop.time(), 6)))
        return reader, writer

    # environment helpers --------------------------------------------------
    def pending_attempt(self):
        for a in self.attempts:
            if a.outcome is None and not a.fut.done():
                return a
        return None

    def resolve(self, att, outcome):
        att.outcome = outcome
        att.resolved_at = self.loop.time()
        if not att.fut.done():
            att.fut.set_result(outcome)

    def live_conn(self):
        for c in reversed(self.conns):
            if c.alive:
                return c
        return None


_installed = {}


def patch_factories(gw):
    _installed["oc"] = asyncio.open_connection
    _installed["sc"] = serial_asyncio.open_serial_connection
    asyncio.open_connection = gw.open_connection
    serial_asyncio.open_serial_connection = gw.open_serial_connection
    assert ioclient.asyncio.open_connection == gw.open_connection


def unpatch_factories():
    if "oc" in _installed:
        asyncio.open_connection = _installed.pop("oc")
        serial_asyncio.open_serial_connection = _installed.pop("sc")


def make_client(kind, **kw):
    if kind == "waveshare":
        return WaveShareNmea2000Gateway("/dev/fake", **kw)
    return CLIENTS[kind]("gw.invalid", 1, **kw)


# --------------------------------------------------------------------------
# session driver

class Obs:
    """What one execution showed."""

    def __init__(self):
        self.status = []          # (t, state name)
        self.received = []        # (t, brief message)
        self.states = []          # client.state name at every boundary
        self.boundaries = []      # (kind, t) per boundary
        self.exceptions = []      # loop exception handler contexts (message, exception type)
        self.flags = {}
        self.hb = 0
        self.tasks_left = []
        self.marks = {}           # named boundary indices / times
        self.cb_active_after_close = 0
        self.end_reason = None
        self.t_end = 0.0

    def digest(self):
        return repr((self.status, self.received, self.states, [b[0] for b in self.boundaries],
                     sorted(self.flags.items()), self.tasks_left, self.end_reason))


_WATCHDOG_HITS = 0


class Session:
    """One deterministic execution.

    script     list of callables item(sess) -> bool ("fired"); fired in order, each at the first
               quiescent boundary where it returns True
    deviations list of (boundary_index, special_name, late) applied at that boundary
    specials   dict name -> callable(sess) -> bool (False = no effect here => execution is redundant)
    """

    def __init__(self, kind, script, specials=None, deviations=(), client_kw=None, recv_cb="ok", status_cb="ok",
                 settle=60.0, heal=None, max_boundaries=4000, connect_plan=("accept",), setup=None, bystander=False):
        self.bystander = bystander
        self.kind = kind
        self.script = list(script)
        self.specials = specials or {}
        self.deviations = list(deviations)   # generated in non-decreasing boundary order; order at one boundary is significant
        self.client_kw = client_kw or {}
        self.recv_cb_mode = recv_cb
        self.status_cb_mode = status_cb
        self.settle = settle
        self.heal = heal
        self.connect_plan = list(connect_plan)
        self.setup = setup
        self.max_boundaries = max_boundaries
        self.obs = Obs()
        self.loop = None
        self.gw = None
        self.client = None
        self.harness_tasks = set()
        self.redundant = False
        self.t_last_event = 0.0
        self.recv_count = 0
        self.status_count = 0
        self.close_returned = False
        self.close_entered = False
        self.cb_running = 0

    # -- callbacks given to the client -----------------------------------
    def _mode(self, mode, n):
        if isinstance(mode, (list, tuple)):
            return mode[n] if n < len(mode) else "ok"
        return mode

    async def _recv_cb(self, msg):
        n = self.recv_count
        self.recv_count += 1
        from .common import msg_view
        self.obs.received.append((round(self.loop.time(), 6), msg_view(msg)))
        if self.close_returned:
            self.obs.cb_active_after_close += 1
        m = self._mode(self.recv_cb_mode, n)
        if self.cb_running:
            self.obs.flags["callbacks_overlap"] = self.obs.flags.get("callbacks_overlap", 0) + 1     # two consumers at work
        self.cb_running += 1
        try:
            await self._recv_body(m, n)
        finally:
            self.cb_running -= 1

    async def _recv_body(self, m, n):
        if m == "raise":
            raise RuntimeError("receive callback failed (injected)")
        if m == "slow":
            await asyncio.sleep(0.05)
        if m == "send":
            # the application answers from inside the callback (calls back into the client)
            from . import clientkit
            await self.client.send(clientkit.heading_message(90 + n % 8))

    async def _status_cb(self, state):
        n = self.status_count
        self.status_count += 1
        self.obs.status.append((round(self.loop.time(), 6), state.name))
        self.gw.log.append(("status", state.name, round(self.loop.time(), 6)))
        m = self._mode(self.status_cb_mode, n)
        if m == "raise":
            raise RuntimeError("status callback failed (injected)")
        if m == "raise_bare":
            raise TimeoutError()          # an exception without arguments (what asyncio.wait_for raises)
        if m == "slow":
            await asyncio.sleep(0.05)

    # -- helpers for script items / specials --------------------------------
    def spawn(self, coro, name):
        t = self.loop.create_task(coro, name="harness:" + name)
        self.harness_tasks.add(t)
        return t

    def env(self, fn, *args):
        """An environment event enters the loop exactly like a selector event: as a ready handle."""
        self.loop.call_soon(fn, *args)
        self.t_last_event = self.loop.time()

    def touch(self):
        self.t_last_event = self.loop.time()

    # -- the run ---------------------------------------------------------------
    def run(self):
        old_handler = signal.getsignal(signal.SIGALRM)

        def on_alarm(signum, frame):
            raise WatchdogTimeout()
        global _WATCHDOG_HITS
        signal.signal(signal.SIGALRM, on_alarm)
        # a worker that has already seen an execution hang gives later ones 3 s instead of 20 s (a healthy execution takes
        # milliseconds); after four hangs it stops executing and marks the rest as skipped, so that a tree on which
        # every execution hangs is reported in minutes, not hours (mc/run.py drops the skipped ones from the report)
        signal.setitimer(signal.ITIMER_REAL, WATCHDOG_S if _WATCHDOG_HITS == 0 else 3.0)
        self.loop = install_loop()
        self.gw = FakeGateway(self.loop)
        patch_factories(self.gw)
        if self.setup:
            self.setup(self.gw)
        self.loop.set_exception_handler(self._on_exc)
        try:
            if _WATCHDOG_HITS >= 4:
                self.client = make_client(self.kind, **self.client_kw)
                self.obs.flags["skipped_after_hangs"] = True
                self.obs.end_reason = "skipped_after_hangs"
            else:
                self._drive()
        except WatchdogTimeout:
            _WATCHDOG_HITS += 1
            self.obs.flags["watchdog"] = True
            self.obs.end_reason = "watchdog"
        finally:
            signal.setitimer(signal.ITIMER_REAL, 0)
            signal.signal(signal.SIGALRM, old_handler)
            try:
                self._teardown()
            finally:
                unpatch_factories()
                uninstall_loop(self.loop)
        return self.obs

    def _on_exc(self, loop, context):
        exc = context.get("exception")
        self.obs.exceptions.append((context.get("message"), type(exc).__name__ if exc else None, str(exc) if exc else None))

    def _iteration(self):
        self.gw.reads_in_handle = 0
        try:
            self.loop.run_iteration()
        except LivelockDetected:
            self.obs.flags["livelock"] = True
        if self.gw.livelock:
            self.obs.flags["livelock"] = True
        if self.gw.outstanding > self.gw.max_outstanding:
            self.gw.max_outstanding = self.gw.outstanding

    def _drive(self):
        o = self.obs
        self.client = make_client(self.kind, **self.client_kw)
        self.client.set_receive_callback(self._recv_cb)
        self.client.set_status_callback(self._status_cb)
        if self.bystander:
            # a second client object of the same class in the same loop, busy retrying a gateway that is down; it is
            # closed after 40 s of virtual time so that the session can become quiescent
            self.by = WaveShareNmea2000Gateway("/dev/down") if self.kind == "waveshare" else CLIENTS[self.kind]("down.invalid", 1)
            self.spawn(self.by.connect(), "bystander-connect")
            self.loop.call_later(40.0, lambda: self.spawn(self.by.close(), "bystander-close"))
        dev = list(self.deviations)
        b = 0
        script_i = 0
        healed = False
        same_time_iters = 0
        next_hb = 1.0
        while True:
            if b >= self.max_boundaries:
                o.end_reason = "boundary-cap"
                o.flags["cap"] = True
                break
            ready = self.loop.has_ready()
            nt = self.loop.next_timer()
            o.states.append(self.client.state.name)
            if self.gw.outstanding > 1:
                o.flags["two_reads_outstanding"] = True
            if self.close_entered and self.client.state != State.CLOSED:
                o.flags.setdefault("left_closed_at", b)
            if self.obs.flags.get("livelock"):
                o.end_reason = "livelock"
                break
            # --- deviations scheduled for this boundary
            fired_here = False
            while dev and dev[0][0] == b:
                _, name, late = dev.pop(0)
                if late:
                    if ready or nt is None:
                        self.redundant = True      # 'just before the timer' only exists at a quiescent boundary with a timer
                    else:
                        self.loop.advance_to(nt - 1e-6)
                self.gw.log.append(("special", name, round(self.loop.time(), 6)))
                ok = self.specials[name](self)
                if ok is False:
                    self.redundant = True
                o.boundaries.append(("special:" + name + (":late" if late else ""), round(self.loop.time(), 6)))
                o.marks.setdefault("special:" + name, b)
                fired_here = True
                self.touch()
            if dev and dev[0][0] < b:
                raise HarnessError(f"deviation {dev[0]} skipped at boundary {b}")
            if fired_here:
                ready = self.loop.has_ready()
            if self.redundant:
                o.end_reason = "redundant"
                break
            # --- default action at this boundary
            if ready:
                kind = "run"
                t0 = self.loop.time()
                self._iteration()
                same_time_iters += 1
                if same_time_iters > BUSY_BUDGET:
                    o.flags["busy_loop"] = True
                    o.end_reason = "busy-loop"
                    break
            else:
                fired = False
                att = self.gw.pending_attempt()
                if att is not None:
                    # the gateway answers a connection attempt at the first quiescent boundary after it was made
                    out = self.connect_plan.pop(0) if self.connect_plan else "accept"
                    if out == "accept" and self.gw.refuse_budget > 0:
                        self.gw.refuse_budget -= 1
                        out = self.gw.refuse_kind
                    att.outcome = out
                    self.env(self.gw.resolve, att, out)
                    fired = True
                    kind = "resolve"
                if not fired and script_i < len(self.script):
                    if self.script[script_i](self):
                        script_i += 1
                        fired = True
                        kind = "script"
                        self.touch()
                if not fired and script_i >= len(self.script) and self.heal:
                    # steady-state environment policy (independent of pending deviations, so that a
                    # deviated run is identical to its parent up to the deviation)
                    if self.heal(self):
                        fired = True
                        healed = True
                        kind = "heal"
                        self.touch()
                if not fired:
                    # flow control: a transport that paused the writer resumes it once nothing else can run
                    pc = next((c for c in self.gw.conns if c.paused and not c.lost), None)
                    if pc is not None:
                        self.env(pc.transport.env_resume)
                        fired = True
                        kind = "resume"
                if not fired:
                    if nt is not None and nt - self.t_last_event <= self.settle:
                        kind = "time"
                        while next_hb <= nt:
                            o.hb += 1
                            next_hb += 1.0
                        self.loop.advance_to(nt)
                        same_time_iters = 0
                    elif nt is not None:
                        o.end_reason = "settle-cap"
                        o.flags["settle_cap"] = True
                        break
                    else:
                        if dev:
                            # deviations addressed boundaries that do not exist
                            raise HarnessError(f"deviation {dev[0]} beyond the end of the execution ({b} boundaries)")
                        o.end_reason = "quiescent"
                        break
            o.boundaries.append((kind, round(self.loop.time(), 6)))
            b += 1
        o.t_end = self.loop.time()
        o.flags["script_done"] = script_i >= len(self.script)
        o.flags["healed"] = healed
        o.flags["max_outstanding"] = self.gw.max_outstanding

    def _teardown(self):
        """Record what is still alive, then cancel everything and let it finish so that the
        garbage collector never meets a suspended coroutine of a closed loop."""
        loop = self.loop
        try:
            tasks = [t for t in asyncio.all_tasks(loop) if not t.done()]
        except RuntimeError:
            tasks = []
        self.obs.tasks_left = sorted((t.get_coro().__qualname__ if t.get_coro() is not None else "?")
                                     for t in tasks if t not in self.harness_tasks)
        for _ in range(5):
            pend = [t for t in asyncio.all_tasks(loop) if not t.done()]
            if not pend:
                break
            for t in pend:
                t.cancel()
            for _ in range(50):
                if not loop.has_ready():
                    nt = loop.next_timer()
                    if nt is None:
                        break
                    loop.advance_to(nt)
                self.gw.reads_in_handle = -10 ** 9
                try:
                    loop.run_iteration()
                except BaseException:  # noqa: BLE001
                    break
        for t in list(asyncio.all_tasks(loop)):
            if t.done() and not t.cancelled():
                try:
                    t.exception()
                except BaseException:  # noqa: BLE001
                    pass
        try:
            if self.client is not None and getattr(self.client, "decoder", None) is not None:
                self.client.decoder.close()
        except Exception:  # noqa: BLE001
            pass


_runs = [0]


def run_session(**kw):
    """GC of reference cycles is taken out of the executions (it would close stale transports at
    arbitrary points); cycles are collected between executions, while no loop is installed."""
    if _runs[0] == 0:
        gc.collect()
        gc.freeze()
        gc.disable()
    _runs[0] += 1
    s = Session(**kw)
    obs = s.run()
    if _runs[0] % 200 == 0:
        gc.collect()
    return s, obs


def explore_placements(make_kwargs, special_names, k, on_execution, late_points=True, start_at=0, first_names=None):
    """Depth-first enumeration of all placements of <= k distinct specials over the
    boundaries of the (deviated) executions.  make_kwargs(deviations) -> kwargs for Session.
    on_execution(deviations, session, obs).  Returns number of executions (incl. redundant)."""
    count = {"runs": 0, "redundant": 0}

    def rec(devs, used, first_b):
        s, obs = run_session(**make_kwargs(devs))
        count["runs"] += 1
        if s.redundant:
            count["redundant"] += 1
            return
        on_execution(devs, s, obs)
        if len(devs) >= k:
            return
        nb = len(obs.boundaries)
        # boundaries of *this* run at or after the last deviation
        # (obs.boundaries has one extra entry per special fired; map back to boundary indices)
        bidx = []
        i = 0
        for kind, t in obs.boundaries:
            if kind.startswith("special:"):
                continue
            bidx.append((i, kind))
            i += 1
        total = i + 1  # one more boundary: the final quiescent one
        for bnd in range(first_b, total):
            kind = bidx[bnd][1] if bnd < len(bidx) else "end"
            for name in (first_names if (first_names is not None and not devs) else special_names):
                if name in used:
                    continue
                rec(devs + [(bnd, name, False)], used | {name}, bnd)
                if late_points and kind == "time":
                    rec(devs + [(bnd, name, True)], used | {name}, bnd)

    rec([], frozenset(), start_at)
    return count


# --------------------------------------------------------------------------
# script items / specials / steady-state policy shared by the client checks

def it_connect(sess):
    sess.spawn(sess.client.connect(), "connect")
    return True


def it_feed(data, cid=0):
    """Scripted traffic belongs to connection #cid: once that connection is gone the item is
    skipped (a later connection starts at a packet boundary, as a real gateway would)."""
    def item(sess):
        if len(sess.gw.conns) <= cid:
            return False
        c = sess.gw.conns[cid]
        if not c.alive or c.eof_sent:
            return True
        if sess.client.state != State.CONNECTED:
            # connection accepted but the client has not reported CONNECTED yet: wait (the loop is
            # quiescent, so this only happens if the client is stuck; then the item is skipped)
            return True
        sess.env(c.transport.env_feed, data)
        return True
    return item


def it_send(msg_factory, name="send"):
    def item(sess):
        sess.spawn(sess.client.send(msg_factory()), name)
        return True
    return item


def it_wait(dt):
    box = {}

    def item(sess):
        if "deadline" not in box:
            box["deadline"] = sess.loop.time() + dt
            sess.spawn(asyncio.sleep(dt), "wait")
            return False
        return sess.loop.time() >= box["deadline"] - 1e-9
    return item


def sp_eof(sess):
    c = sess.gw.live_conn()
    if c is None or c.eof_sent:
        return False
    sess.env(c.transport.env_eof)
    c.eof_sent = True
    return True


def sp_reset(sess):
    c = sess.gw.live_conn()
    if c is None:
        return False
    c.reset = True
    sess.env(c.transport.env_reset)
    return True


def sp_garbage_eof(garbage):
    def sp(sess):
        c = sess.gw.live_conn()
        if c is None or c.eof_sent:
            return False
        sess.env(c.transport.env_feed, garbage)
        sess.env(c.transport.env_eof)
        c.eof_sent = True
        return True
    return sp


def sp_write_fail(sess):
    if sess.gw.fail_write_armed:
        return False
    sess.gw.fail_write_armed = True
    return True


def sp_refuse_next(sess):
    sess.gw.refuse_budget += 1
    return True


def sp_fail_next(kind):
    """the next connection attempt fails with an error of this kind (unreachable / timeout / noport)"""
    def sp(sess):
        sess.gw.refuse_budget += 1
        sess.gw.refuse_kind = kind
        return True
    return sp


def sp_close(sess):
    async def do_close():
        sess.close_entered = True
        sess.obs.marks["close_entered_t"] = sess.loop.time()
        sess.obs.marks["attempts_at_close"] = len(sess.gw.attempts)
        await sess.client.close()
        # what is still open at the moment this close() call returns (a close() that returns early leaves the link up)
        sess.obs.marks.setdefault("open_at_close_return", []).append(
            [c.cid for c in sess.gw.conns if not (c.closed_by_client or c.lost or c.reset or c.write_failed_at is not None
                                                or (c.eof_sent and c is not sess.gw.conns[-1]))])
        sess.close_returned = True
        sess.obs.marks["close_returned_t"] = sess.loop.time()
        sess.obs.marks["received_at_close_return"] = len(sess.obs.received)
    sess.spawn(do_close(), "close")
    return True


def sp_connect(sess):
    sess.spawn(sess.client.connect(), "connect2")
    return True


def sp_send(msg_factory):
    def sp(sess):
        sess.spawn(sess.client.send(msg_factory()), "send-special")
        return True
    return sp


def steady_state(probe_bytes, second_probe=False):
    """Environment policy once the script is over: accept every connection attempt
    (unless a refusal is armed) and send one probe packet on every connection as soon as the
    client reports CONNECTED."""
    def heal(sess):
        c = sess.gw.live_conn()
        if c is not None and not getattr(c, "probed", False) and sess.client.state == State.CONNECTED and not c.eof_sent:
            c.probed = True
            c.probe_t = sess.loop.time()
            sess.obs.marks.setdefault("probes", []).append((c.cid, round(sess.loop.time(), 6), len(sess.obs.received)))
            sess.env(c.transport.env_feed, probe_bytes)
            if second_probe:
                sess.spawn(asyncio.sleep(0.5), "probe-gap")        # lets half a second pass before the second probe
            return True
        # a second probe half a second later: whatever was still in flight when the connection came up has settled by then
        if (second_probe and c is not None and getattr(c, "probed", False) and not getattr(c, "probed2", False) and not c.eof_sent
                and sess.client.state == State.CONNECTED and sess.loop.time() >= c.probe_t + 0.5 - 1e-9):
            c.probed2 = True
            sess.obs.marks.setdefault("probes", []).append((c.cid, round(sess.loop.time(), 6), len(sess.obs.received)))
            sess.env(c.transport.env_feed, probe_bytes)
            return True
        return False
    return heal


def it_send_many(factories):
    """several send() calls issued at the same loop boundary, in this order"""
    def item(sess):
        for i, f in enumerate(factories):
            sess.spawn(sess.client.send(f()), f"send{i}")
        return True
    return item
