"""Reference model of the canboat database, written from canboat.json alone.
Nothing here imports nmea2000.utils / nmea2000.pgns."""
from __future__ import annotations

import datetime as dt
import json
import math
import os
import struct
from fractions import Fraction

from . import common

SUPPORTED = {"NUMBER", "MMSI", "PGN", "DURATION", "TIME", "DATE", "LOOKUP", "BITLOOKUP", "INDIRECT_LOOKUP",
             "RESERVED", "SPARE", "FLOAT", "STRING_FIX", "STRING_LZ", "STRING_LAU", "BINARY"}
ENCODABLE = {"NUMBER", "PGN", "RESERVED", "FLOAT", "LOOKUP", "DATE", "TIME", "DURATION"}
NUMERIC = {"NUMBER", "MMSI", "PGN", "DURATION", "TIME", "DATE"}


def frac(x):
    return Fraction(str(x)) if x is not None else None


class Field:
    __slots__ = ("order", "id", "name", "type", "bits", "offset", "signed", "res", "off", "rmin", "rmax", "unit", "pq", "pk",
                 "match", "lookup", "bitlookup", "indirect", "indirect_order", "bits_field", "raw", "variable")

    def __init__(self, f):
        self.raw = f
        self.order = f["Order"]
        self.type = f["FieldType"]
        self.bits = f.get("BitLength")
        self.offset = f.get("BitOffset")
        self.id = ("reserved_" + str(self.offset)) if self.type == "RESERVED" else f["Id"]
        self.name = f["Name"]
        self.signed = bool(f.get("Signed", False))
        self.res = frac(f.get("Resolution", 1))
        self.off = frac(f.get("Offset", 0))
        self.rmin = frac(f.get("RangeMin"))
        self.rmax = frac(f.get("RangeMax"))
        self.unit = f.get("Unit")
        self.pq = f.get("PhysicalQuantity")
        self.pk = bool(f.get("PartOfPrimaryKey", False))
        self.match = f.get("Match")
        self.lookup = f.get("LookupEnumeration")
        self.bitlookup = f.get("LookupBitEnumeration")
        self.indirect = f.get("LookupIndirectEnumeration")
        self.indirect_order = f.get("LookupIndirectEnumerationFieldOrder")
        self.bits_field = f.get("BitLengthField")
        self.variable = bool(f.get("BitLengthVariable", False)) or self.bits is None

    # raw-domain helpers ---------------------------------------------------
    def sentinel(self):
        """raw bit pattern (unsigned view) that means 'not available' for numeric fields"""
        b = self.bits
        if b is None:
            return None
        if self.signed and b >= 2:
            return (1 << (b - 1)) - 1
        return (1 << b) - 1

    def to_signed(self, u):
        b = self.bits
        if self.signed and u & (1 << (b - 1)):
            return u - (1 << b)
        return u

    def from_signed(self, v):
        return v & ((1 << self.bits) - 1)

    def scaled(self, u):
        return self.to_signed(u) * self.res + self.off

    def in_range(self, u):
        v = self.scaled(u)
        if self.rmin is not None and v < self.rmin:
            return False
        if self.rmax is not None and v > self.rmax:
            return False
        return True

    def raw_range(self):
        """(lo, hi) signed raw integers whose scaled value lies inside the database range, sentinel excluded;
        None if no raw is in range"""
        b = self.bits
        lo = -(1 << (b - 1)) if self.signed else 0
        hi = (1 << (b - 1)) - 1 if self.signed else (1 << b) - 1
        if self.rmin is not None:
            lo = max(lo, math.ceil((self.rmin - self.off) / self.res))
        if self.rmax is not None:
            hi = min(hi, math.floor((self.rmax - self.off) / self.res))
        s = self.to_signed(self.sentinel())
        if hi == s and self.type in NUMERIC:
            hi -= 1
        if lo == s and self.type in NUMERIC:
            lo += 1
        if lo > hi:
            return None
        return lo, hi


class Definition:
    def __init__(self, idx, p):
        self.idx = idx
        self.raw = p
        self.pgn = p["PGN"]
        self.id = p["Id"]
        self.description = p["Description"]
        self.type = p["Type"]
        self.fallback = bool(p.get("Fallback", False))
        self.length = p.get("Length")
        self.min_length = p.get("MinLength")
        self.interval = p.get("TransmissionInterval")
        self.fields = [Field(f) for f in p["Fields"]]
        self.match_fields = [f for f in self.fields if f.match is not None]
        self.types = {f.type for f in self.fields}
        self.fixed = all(f.bits is not None and f.offset is not None for f in self.fields)
        self.supported = self.types <= SUPPORTED and not any(f.bits_field for f in self.fields if False)
        self.encodable = self.fixed and self.types <= ENCODABLE
        self.fast = self.type == "Fast"

    def byte_length(self):
        if self.fixed:
            m = max(f.offset + f.bits for f in self.fields)
            n = (m + 7) // 8
            return max(n, self.length or 0) if self.length and self.length < 224 else n
        return self.length or self.min_length or 8

    def encode_length(self):
        """length of the bytes the encoder must produce: the definition's Length"""
        return self.length


class DB:
    def __init__(self, repo=None):
        path = os.path.join(repo or common.REPO, "canboat.json")
        with open(path) as f:
            d = json.load(f)
        self.defs = [Definition(i, p) for i, p in enumerate(d["PGNs"])]
        self.by_pgn = {}
        for x in self.defs:
            self.by_pgn.setdefault(x.pgn, []).append(x)
        self.by_id = {}
        for x in self.defs:
            self.by_id.setdefault((x.pgn, x.id), x)
        self.lookups = {e["Name"]: {v["Value"]: v["Name"] for v in e["EnumValues"]} for e in d["LookupEnumerations"]}
        self.bitlookups = {e["Name"]: {v["Bit"]: v["Name"] for v in e["EnumBitValues"]} for e in d["LookupBitEnumerations"]}
        self.indirect = {e["Name"]: {(v["Value1"], v["Value2"]): v["Name"] for v in e["EnumValues"]}
                         for e in d["LookupIndirectEnumerations"]}
        self.multi = {p: ds for p, ds in self.by_pgn.items() if len(ds) > 1}
        self.match_pgns = {p: ds for p, ds in self.multi.items() if any(x.match_fields for x in ds)}

    # ------------------------------------------------------------------
    def select(self, pgn, payload_int):
        """definitions the payload may be decoded with: a set of ids (usually one) or empty."""
        ds = self.by_pgn.get(pgn)
        if not ds:
            return set()
        if len(ds) == 1:
            return {ds[0].id}
        if pgn not in self.match_pgns:
            return {x.id for x in ds}           # several definitions, none distinguished: the database leaves it open
        for x in ds:
            if x.fallback:
                continue
            if not x.match_fields:
                continue                        # (129808 dscCallInformation) can never be told apart: see DESIGN 2.1
            if all(((payload_int >> f.offset) & ((1 << f.bits) - 1)) == f.match for f in x.match_fields):
                return {x.id}
        fb = [x for x in ds if x.fallback]
        if fb:
            return {fb[0].id}
        return set()


_db = None


def db():
    global _db
    if _db is None:
        _db = DB()
    return _db


# --------------------------------------------------------------------------
# expectations

class Exp:
    """What the database says a field's value must be."""
    __slots__ = ("kind", "v", "alts", "note")

    def __init__(self, kind, v=None, alts=None, note=""):
        self.kind, self.v, self.alts, self.note = kind, v, alts, note

    def __repr__(self):
        return f"Exp({self.kind},{self.v!r},{self.alts!r},{self.note})"


ANY = Exp("any")


def approx_equal(got, want: Fraction, res: Fraction):
    if not isinstance(got, (int, float)) or isinstance(got, bool):
        return False
    if isinstance(got, float) and not math.isfinite(got):
        return False
    tol = max(abs(want) * Fraction(1, 10 ** 9), abs(res) * Fraction(1, 1000), Fraction(1, 10 ** 12))
    return abs(Fraction(got) - want) <= tol


def check_value(exp: Exp, got):
    k = exp.kind
    if k == "any":
        return True
    if k == "exact":
        return got == exp.v and type(got) is type(exp.v) or (got == exp.v and not isinstance(exp.v, bool))
    if k == "none":
        return got is None
    if k == "approx":
        return approx_equal(got, exp.v, exp.alts)
    if k == "oneof":
        return any(check_value(e, got) for e in exp.alts)
    if k == "str":
        return isinstance(got, str)
    if k == "bytesint":
        return isinstance(got, (bytes, bytearray)) and int.from_bytes(got, "big") == exp.v
    if k == "time":
        if not isinstance(got, dt.time):
            return False
        secs = got.hour * 3600 + got.minute * 60 + got.second + got.microsecond / 1e6
        return abs(secs - float(exp.v)) < 1.0
    if k == "float":
        if exp.v is None:
            return True
        return isinstance(got, float) and (got == exp.v or (math.isnan(got) and math.isnan(exp.v)))
    raise AssertionError(k)


PRINTABLE = set(range(0x20, 0x7F)) - {0x40}


class FieldResult:
    __slots__ = ("field", "offset", "bits", "u", "exp", "in_range", "mayfail", "absent")

    def __init__(self, field, offset, bits, u, exp, in_range=True, mayfail=False, absent=False):
        self.field, self.offset, self.bits, self.u, self.exp = field, offset, bits, u, exp
        self.in_range, self.mayfail, self.absent = in_range, mayfail, absent


def ref_decode(defn: Definition, payload_int: int, nbytes: int):
    """-> (list[FieldResult], must_decode: bool).  must_decode = every field well-formed and in range."""
    d = db()
    out = []
    running = 0
    must = defn.supported
    raws = {}
    for f in defn.fields:
        off = f.offset if f.offset is not None else running
        t = f.type
        if t not in SUPPORTED:
            out.append(FieldResult(f, off, f.bits, None, ANY, mayfail=True))
            must = False
            break
        if t in ("STRING_LAU", "STRING_LZ"):
            avail = nbytes * 8 - off
            data = (payload_int >> off).to_bytes(max(nbytes - off // 8, 0) + 2, "little") if off % 8 == 0 else b""
            if t == "STRING_LAU":
                ln = data[0] if avail >= 8 else 0
                ctl = data[1] if avail >= 16 else 0
                body = data[2:ln] if ln >= 2 else b""
                wf = avail >= 16 and ln >= 2 and ln * 8 <= avail and off % 8 == 0
                if wf and ctl == 1 and all(b in PRINTABLE for b in body):
                    exp = Exp("exact", body.decode("ascii"))
                elif wf and ctl == 0 and len(body) % 2 == 0 and all(body[i + 1] == 0 and body[i] in PRINTABLE for i in range(0, len(body), 2)):
                    exp = Exp("oneof", alts=[Exp("exact", body.decode("utf-16-le")), Exp("str")])
                else:
                    exp = Exp("oneof", alts=[Exp("str"), Exp("none")])
                if not wf:
                    must = False
                out.append(FieldResult(f, off, ln * 8, None, exp))
                running = off + ln * 8
                raws[f.order] = None
                continue
            ln = data[0] if avail >= 8 else 0
            body = data[1:1 + ln]
            wf = avail >= 8 and (ln + 1) * 8 <= avail and off % 8 == 0
            if wf and all(b in PRINTABLE for b in body):
                exp = Exp("exact", body.decode("ascii"))
            else:
                exp = Exp("oneof", alts=[Exp("str"), Exp("none")])
            if not wf:
                must = False
            out.append(FieldResult(f, off, (ln + 2) * 8, None, exp))
            running = off + (ln + 2) * 8
            continue
        bits = f.bits
        if bits is None and f.bits_field:
            # BINARY whose length is the value of another field (in bits)
            ref = defn.fields[f.bits_field - 1]
            bits = raws.get(ref.order)
            ref_fr = next((x for x in out if x.field is ref), None)
            if ref_fr is None or ref_fr.absent or not ref_fr.in_range or not isinstance(bits, int) or bits < 0 or bits > 1784:
                out.append(FieldResult(f, off, None, None, ANY, mayfail=True))
                must = False
                break
        if bits is None:
            out.append(FieldResult(f, off, None, None, ANY, mayfail=True))
            must = False
            break
        u = (payload_int >> off) & ((1 << bits) - 1)
        raws[f.order] = u
        running = off + bits
        if off + bits > nbytes * 8 and u == 0 and False:
            pass
        if t in NUMERIC:
            sent = f.sentinel() if f.bits == bits else None
            sv = f.to_signed(u) * f.res + f.off
            inr = f.in_range(u)
            fr = FieldResult(f, off, bits, u, None, in_range=inr)
            if sent is not None and u == sent and bits >= 2 and not inr:
                fr.exp = Exp("none")
                fr.absent = True
            elif sent is not None and u == sent:
                # the 'not available' pattern lies inside the database range (or 1-bit field): both readings accepted
                fr.exp = Exp("oneof", alts=[Exp("none"), value_exp(f, sv)])
                fr.absent = True
            elif f.signed and f.off != 0 and f.rmax is not None and f.rmax > (1 << (bits - 1)) * f.res + f.off and u >> (bits - 1):
                # 'excess-K' fields whose database range is wider than the signed raw range: top bit set is ambiguous
                fr.exp = ANY
                fr.mayfail = True
                must = False
            elif not inr:
                fr.exp = value_exp(f, sv)
                fr.mayfail = True
                must = False
            else:
                fr.exp = value_exp(f, sv)
            out.append(fr)
        elif t == "LOOKUP":
            name = d.lookups.get(f.lookup, {}).get(u)
            out.append(FieldResult(f, off, bits, u, Exp("exact", name) if name is not None else Exp("none")))
        elif t == "BITLOOKUP":
            table = d.bitlookups.get(f.bitlookup, {})
            names = [table[b] for b in range(bits) if (u >> b) & 1 and b in table]
            out.append(FieldResult(f, off, bits, u, Exp("exact", ", ".join(names))))
        elif t == "INDIRECT_LOOKUP":
            out.append(FieldResult(f, off, bits, u, Exp("indirect")))
        elif t in ("RESERVED", "SPARE"):
            out.append(FieldResult(f, off, bits, u, Exp("exact", u)))
        elif t == "FLOAT":
            if bits == 32:
                fv = struct.unpack("<f", struct.pack("<I", u))[0]
                if not math.isfinite(fv):
                    out.append(FieldResult(f, off, bits, u, ANY, mayfail=True))
                    must = False
                else:
                    inr = (f.rmin is None or Fraction(fv) >= f.rmin) and (f.rmax is None or Fraction(fv) <= f.rmax)
                    out.append(FieldResult(f, off, bits, u, Exp("float", fv), in_range=inr, mayfail=not inr))
                    if not inr:
                        must = False
            else:
                out.append(FieldResult(f, off, bits, u, ANY, mayfail=True))
        elif t == "STRING_FIX":
            raw = u.to_bytes((bits + 7) // 8, "little")
            cut = len(raw)
            for i, b in enumerate(raw):
                if b in (0x00, 0xFF, 0x40):
                    cut = i
                    break
            # well-formed = printable text followed by padding only ('@', ' ', 0x00, 0xff); anything else
            # (text after a terminator, non-ASCII bytes) is outside what the database defines
            if all(b in PRINTABLE for b in raw[:cut]) and all(b in (0x00, 0xFF, 0x40, 0x20) for b in raw[cut:]) and bits % 8 == 0:
                text = raw[:cut].decode("ascii")
                out.append(FieldResult(f, off, bits, u, Exp("oneof", alts=[Exp("exact", text.rstrip(" ")), Exp("exact", text.strip(" "))])))
            else:
                out.append(FieldResult(f, off, bits, u, Exp("str")))
        elif t == "BINARY":
            out.append(FieldResult(f, off, bits, u, Exp("bytesint", u)))
        else:
            raise AssertionError(t)
    # resolve indirect lookups
    for fr in out:
        if fr.exp is not None and fr.exp.kind == "indirect":
            f = fr.field
            other = raws.get(f.indirect_order)
            table = d.indirect.get(f.indirect, {})
            if other is None:
                fr.exp = ANY
            else:
                name = table.get((other, fr.u))
                fr.exp = Exp("exact", name) if name is not None else Exp("none")
    return out, must


def value_exp(f: Field, sv: Fraction):
    t = f.type
    if t == "TIME":
        if sv < 0 or sv >= 86400:
            return Exp("time-any")
        return Exp("time", sv)
    if t == "DATE":
        try:
            return Exp("exact", dt.date(1970, 1, 1) + dt.timedelta(days=int(sv)))
        except (OverflowError, ValueError):
            return ANY
    return Exp("approx", sv, f.res)


_orig_check = check_value


def check_value(exp, got):  # noqa: F811
    if exp.kind == "time-any":
        return isinstance(got, dt.time)
    return _orig_check(exp, got)


def field_mask(fr: FieldResult):
    if fr.bits is None:
        return 0
    return ((1 << fr.bits) - 1) << fr.offset
