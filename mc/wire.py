"""Reference renderings of CAN frames in the five input formats, written from
the format descriptions (not from the library).  Used as the oracle side / the
environment side of several checks."""
from __future__ import annotations


def can_id(prio: int, pgn: int, src: int, dst: int) -> int:
    """29-bit identifier, J1939 layout: prio(3) | R+DP(2) | PF(8) | PS(8) | SA(8)."""
    pf = (pgn >> 8) & 0xFF
    dp = (pgn >> 16) & 0x3
    ps = dst & 0xFF if pf < 240 else pgn & 0xFF
    return ((prio & 7) << 26) | (dp << 24) | (pf << 16) | (ps << 8) | (src & 0xFF)


def parse_id(ident: int):
    """-> (prio, pgn, src, dst) with dst = 255 for PDU2."""
    src = ident & 0xFF
    ps = (ident >> 8) & 0xFF
    pf = (ident >> 16) & 0xFF
    dp = (ident >> 24) & 0x3
    prio = (ident >> 26) & 0x7
    if pf < 240:
        return prio, (dp << 16) | (pf << 8), src, ps
    return prio, (dp << 16) | (pf << 8) | ps, src, 255


def ebyte_packet(ident: int, data: bytes, pad: int = 0x00) -> bytes:
    assert len(data) <= 8
    return bytes([0x80 | len(data)]) + ident.to_bytes(4, "big") + bytes(data) + bytes([pad]) * (8 - len(data))


def usb_checksum(packet19: bytes) -> int:
    return sum(packet19[2:19]) & 0xFF


def usb_packet(ident: int, data: bytes, pad: int = 0x00) -> bytes:
    assert len(data) <= 8
    p = bytes([0xAA, 0x55, 0x01, 0x02, 0x01]) + ident.to_bytes(4, "little") + bytes([len(data)]) \
        + bytes(data) + bytes([pad]) * (8 - len(data)) + b"\x00"
    return p + bytes([usb_checksum(p)])


def yd_line(ident: int, data: bytes, direction: str = "R", ts: str = "00:00:00.000", upper: bool = True) -> str:
    h = f"{ident:08X}" if upper else f"{ident:08x}"
    fmt = "{:02X}" if upper else "{:02x}"
    return f"{ts} {direction} {h} " + " ".join(fmt.format(b) for b in data)


def actisense_line(prio: int, dst: int, src: int, pgn: int, payload: bytes, ts: str = "A000000.000", upper: bool = True) -> str:
    n = (src << 12) | (dst << 4) | prio
    if upper:
        return f"{ts} {n:05X} {pgn:05X} {payload.hex().upper()}"
    return f"{ts} {n:05x} {pgn:05x} {payload.hex()}"


def plain_line(prio: int, pgn: int, src: int, dst: int, data: bytes, ts: str = "2024-01-01-12:00:00.000", upper: bool = False) -> str:
    fmt = "{:02X}" if upper else "{:02x}"
    return f"{ts},{prio},{pgn},{src},{dst},{len(data)}," + ",".join(fmt.format(b) for b in data)


def n_frames(length: int) -> int:
    return 1 if length <= 6 else 1 + -(-(length - 6) // 7)


def fast_frames(seq: int, payload: bytes, pad: int | None = None) -> list[bytes]:
    """Fast-packet segmentation per the standard: frame 0 = [seq<<5|0, len, 6 bytes],
    frame i = [seq<<5|i, 7 bytes]; pad fills every frame to 8 bytes if given."""
    L = len(payload)
    out = [bytes([(seq & 7) << 5, L]) + payload[:6]]
    off, i = 6, 1
    while off < L:
        out.append(bytes([((seq & 7) << 5) | i]) + payload[off:off + 7])
        off += 7
        i += 1
    if pad is not None:
        out = [f + bytes([pad]) * (8 - len(f)) for f in out]
    return out


def iso_name(unique=12345, mfr=229, inst_lower=0, inst_upper=0, function=130, dev_class=25, sys_inst=0, industry=4, aac=1):
    """64-bit ISO 11783 NAME (PGN 60928 payload as an integer, little-endian on the wire)."""
    return ((unique & 0x1FFFFF) | ((mfr & 0x7FF) << 21) | ((inst_lower & 7) << 32) | ((inst_upper & 0x1F) << 35)
            | ((function & 0xFF) << 40) | ((dev_class & 0x7F) << 49) | ((sys_inst & 0xF) << 56) | ((industry & 7) << 60) | ((aac & 1) << 63))


def claim_packet(src, name, dst=255, prio=6):
    return ebyte_packet(can_id(prio, 60928, src, dst), name.to_bytes(8, "little"))


def entry_points(pgn, payload, fast, prio=3, src=7, dst=255, seq=5):
    """name -> callable(decoder): the same message through every way a decoder can be handed it"""
    ident = can_id(prio, pgn, src, dst)
    frames = fast_frames(seq, payload, None) if fast else [payload]

    def framewise(one):
        def run_(d):
            last = None
            for fr in frames:
                last = one(d, fr)
            return last
        return run_
    out = {"actisense": lambda d: d.decode_actisense_string(actisense_line(prio, dst, src, pgn, payload)),
           "plain_combined": lambda d: d.decode_basic_string(plain_line(prio, pgn, src, dst, payload), already_combined=True)}
    if fast or len(payload) <= 8:
        out["ebyte"] = framewise(lambda d, fr: d.decode_tcp(ebyte_packet(ident, fr)))
        out["usb"] = framewise(lambda d, fr: d.decode_usb(usb_packet(ident, fr)))
        out["usb_bytearray"] = framewise(lambda d, fr: d.decode_usb(bytearray(usb_packet(ident, fr))))    # what the serial client hands over (a slice of its buffer)
        out["yd"] = framewise(lambda d, fr: d.decode_yacht_devices_string(yd_line(ident, fr)))
        out["plain_frames"] = framewise(lambda d, fr: d.decode_basic_string(plain_line(prio, pgn, src, dst, fr)))
    return out
