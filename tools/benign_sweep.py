#!/venv/bin/python
"""tools/benign_sweep.py [name ...]

False-alarm sweep: apply property-preserving changes (refactorings a maintainer could make without breaking any of the
twenty properties) to a scratch copy of /repo, run the repository's tests and ALL quick checks against it.  Every alarm or
harness error is a defect of the machinery."""
import os
import shutil
import subprocess
import sys
import tempfile

V = os.path.dirname(os.path.dirname(os.path.abspath(__file__)))

# name -> list of (file, old, new)
CHANGES = {
    "rename-reassembly-dict": [("nmea2000/decoder.py", "self.data", "self._fast_packets")],
    "decoder-statistics-counter": [("nmea2000/decoder.py", "        self.build_network_map = build_network_map\n",
                                    "        self.build_network_map = build_network_map\n        self.frames_seen = 0\n"),
                                   ("nmea2000/decoder.py", "    def _decode(self, pgn: int, priority: int, source_id: int, destination_id: int, timestamp: datetime, can_data: bytes, raw_can_data: bytes | str, already_combined: bool = False) -> NMEA2000Message | None:\n",
                                    "    def _decode(self, pgn: int, priority: int, source_id: int, destination_id: int, timestamp: datetime, can_data: bytes, raw_can_data: bytes | str, already_combined: bool = False) -> NMEA2000Message | None:\n        self.frames_seen = (self.frames_seen + 1) % 4\n")],
    "extra-yield-points": [("nmea2000/ioclient.py", "                data = await self.queue.get()\n", "                data = await self.queue.get()\n                await asyncio.sleep(0)\n"),
                           ("nmea2000/ioclient.py", "            async with self._send_lock:\n", "            await asyncio.sleep(0)\n            async with self._send_lock:\n")],
    "json-sorted-keys": [("nmea2000/message.py", "return orjson.dumps(self.__dict__, default=default).decode()", "return orjson.dumps(self.__dict__, default=default, option=orjson.OPT_SORT_KEYS).decode()")],
    "backoff-slower": [("nmea2000/ioclient.py", "wait=wait_exponential(multiplier=0.5, max=10)", "wait=wait_exponential(multiplier=1, max=45)")],
    "encoder-pads-last-frame": [("nmea2000/encoder.py", "            packets.append(frame_bytes)\n", "            packets.append(frame_bytes.ljust(8, b'\\xff'))\n")],
    "close-sleeps-shorter": [("nmea2000/ioclient.py", "await asyncio.sleep(0.01)  # Allow cancellation to propagate", "await asyncio.sleep(0.002)  # Allow cancellation to propagate")],
    "read-size-64": [("nmea2000/ioclient.py", "data = await self.reader.read(100)", "data = await self.reader.read(64)")],
    "log-noise": [("nmea2000/decoder.py", "logger.debug(", "logger.info("), ("nmea2000/ioclient.py", "self.logger.debug(", "self.logger.info(")],
    "bounded-queue": [("nmea2000/ioclient.py", "self.queue = asyncio.Queue()", "self.queue = asyncio.Queue(maxsize=4)")],
    "encoder-counter-starts-at-5": [("nmea2000/encoder.py", "        self.sequence_counter = 0\n", "        self.sequence_counter = 5\n")],
    "serial-read-4096": [("nmea2000/ioclient.py", "data = await self.reader.read(100)", "data = await self.reader.read(4096)")],
    "text-readuntil": [("nmea2000/ioclient.py", "data = await self.reader.readline()", "data = await self.reader.readline() if True else b''")],
    "close-cancels-consumer-first": [("nmea2000/ioclient.py", """        # Cancel the receive loop task if it exists
        if self._receive_task and not self._receive_task.done():
            self._receive_task.cancel()
            await asyncio.sleep(0.01)  # Allow cancellation to propagate
        # Cancel the process queue task if it exists
        if self._process_queue_task and not self._process_queue_task.done():
            self._process_queue_task.cancel()
            await asyncio.sleep(0.01)  # Allow cancellation to propagate
""", """        # Cancel the process queue task if it exists
        if self._process_queue_task and not self._process_queue_task.done():
            self._process_queue_task.cancel()
        # Cancel the receive loop task if it exists
        if self._receive_task and not self._receive_task.done():
            self._receive_task.cancel()
        await asyncio.sleep(0.01)  # Allow cancellation to propagate
""")],
    "noise-trim-keeps-19": [("nmea2000/ioclient.py", """                keep = 1 if self._buffer.endswith(b"\\xaa") else 0
                del self._buffer[:len(self._buffer) - keep]""", """                keep = min(len(self._buffer), 19)
                del self._buffer[:len(self._buffer) - keep]""")],
    "close-old-writer-on-reconnect": [("nmea2000/ioclient.py", "                    await self._connect_impl()", "                    if self.writer is not None:\n                        self.writer.close()\n                    await self._connect_impl()")],
    "identity-map-str-keys": [("nmea2000/decoder.py", "self.source_to_iso_name.get(src, None)", "self.source_to_iso_name.get(src)")],
    "hash-upper-bits-same": [("nmea2000/message.py", "self.hash = hashlib.md5(primary_key.encode()).hexdigest()", "self.hash = hashlib.md5(primary_key.encode('utf-8')).hexdigest().lower()")],
}


def main():
    names = sys.argv[1:] or list(CHANGES)
    ids = [f"C{i:02d}" for i in range(1, 21)]
    bad = 0
    for name in names:
        d = tempfile.mkdtemp(prefix="benign_", dir="/tmp")
        try:
            subprocess.run(["rsync", "-a", "--exclude", ".git", "--exclude", "__pycache__", "--exclude", ".pytest_cache", "/repo/", d + "/"], check=True)
            for f, old, new in CHANGES[name]:
                p = os.path.join(d, f)
                s = open(p).read()
                if old not in s:
                    print(f"{name}: pattern not found in {f}: {old[:60]!r}")
                    continue
                open(p, "w").write(s.replace(old, new))
            r = subprocess.run(["/venv/bin/python", "-m", "pytest", "-q", "-x", "-p", "no:cacheprovider"], cwd=d, capture_output=True, text=True)
            print(f"== {name}: tests: {r.stdout.strip().splitlines()[-1] if r.stdout.strip() else r.stderr[-200:]}", flush=True)
            for c in ids:
                r = subprocess.run([os.path.join(V, "check"), c, "--tier", "quick"], env=dict(os.environ, VERIF_REPO=d), capture_output=True, text=True)
                lines = (r.stdout + r.stderr).strip().splitlines()
                if r.returncode != 0:
                    bad += 1
                    first = next((lines[i + 1].strip() for i, l in enumerate(lines) if l.startswith("VIOLATION") and i + 1 < len(lines)), "")
                    print(f"   {c} rc={r.returncode} :: {first[:260] or ' | '.join(lines[-4:])[:400]}", flush=True)
        finally:
            shutil.rmtree(d, ignore_errors=True)
    print("alarms on benign changes:", bad)


main()
