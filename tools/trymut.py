#!/venv/bin/python
"""tools/trymut.py [--no-tests] [--tier T] <ID[,ID..]> (<patch.diff> | -s FILE OLD NEW [-s ...])
Copy /repo to a scratch dir outside /repo and /verif, apply a change, run the
repository's own tests there, run the named checks against the copy, clean up."""
import os, shutil, subprocess, sys, tempfile

def main():
    a = sys.argv[1:]
    tests, tier = True, "quick"
    while a and a[0].startswith("--"):
        if a[0] == "--no-tests": tests = False; a = a[1:]
        elif a[0] == "--tier": tier = a[1]; a = a[2:]
        else: break
    ids = a[0].split(","); a = a[1:]
    d = tempfile.mkdtemp(prefix="vmut_", dir="/tmp")
    try:
        subprocess.run(["rsync", "-a", "--exclude", ".git", "--exclude", "__pycache__", "--exclude", ".pytest_cache", "/repo/", d + "/"], check=True)
        if a[0] == "-s":
            while a:
                assert a[0] == "-s"
                f, old, new = a[1:4]; a = a[4:]
                p = os.path.join(d, f); s = open(p).read()
                assert s.count(old) >= 1, f"pattern not found in {f}: {old!r}"
                open(p, "w").write(s.replace(old, new, 1))
        else:
            subprocess.run(["patch", "-p1", "-s", "-d", d, "-i", os.path.abspath(a[0])], check=True)
        if tests:
            r = subprocess.run(["/venv/bin/python", "-m", "pytest", "-q", "-x", "-p", "no:cacheprovider"], cwd=d, capture_output=True, text=True)
            print("TESTS:", r.stdout.strip().splitlines()[-1] if r.stdout.strip() else r.stderr[-300:])
        rc_all = {}
        for pid in ids:
            env = dict(os.environ, VERIF_REPO=d)
            r = subprocess.run(["/verif/check", pid, "--tier", tier], env=env, capture_output=True, text=True)
            lines = (r.stdout + r.stderr).strip().splitlines()
            vio = [l for l in lines if l.startswith("VIOLATION")]
            print(f"{pid}: rc={r.returncode} violations={len(vio)}")
            for l in lines[:6] + lines[-2:]:
                print("   ", l[:220])
            rc_all[pid] = r.returncode
        return 0
    finally:
        shutil.rmtree(d, ignore_errors=True)

sys.exit(main())
