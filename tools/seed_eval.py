#!/venv/bin/python
"""tools/seed_eval.py <worktree> <seed-name> <property-id> [check-ids...]

Confirm a seeded change produced by an independent sub-agent and record it:
 1. the diff of the worktree against its HEAD is the change; the demo is demo_*.py in its root;
 2. the repository's own tests pass with the change;
 3. the demo fails with the change and passes without it;
 4. the named checks (default: the property's own) are run against the changed tree;
 5. everything is stored under /verif/seeded/<seed-name>/ (patch.diff, demo, meta.json).
"""
import glob
import json
import os
import shutil
import subprocess
import sys
import tempfile

V = "/verif"


def sh(cmd, cwd=None, env=None, timeout=3600):
    r = subprocess.run(cmd, cwd=cwd, env=env, capture_output=True, text=True, timeout=timeout)
    return r.returncode, (r.stdout + r.stderr)


def main():
    wt, name, pid = sys.argv[1:4]
    checks = list(dict.fromkeys([pid] + sys.argv[4:]))
    rc, diff = sh(["git", "diff"], cwd=wt)
    if not diff.strip():
        print("no change in worktree")
        return 2
    demos = [p for p in glob.glob(os.path.join(wt, "demo_*.py"))]
    if not demos:
        print("no demo file")
        return 2
    demo = demos[0]
    out = os.path.join(V, "seeded", name)
    os.makedirs(out, exist_ok=True)
    open(os.path.join(out, "patch.diff"), "w").write(diff)
    shutil.copy(demo, os.path.join(out, os.path.basename(demo)))
    meta = {"property": pid, "name": name, "files_changed": sorted({l[6:] for l in diff.splitlines() if l.startswith("+++ b/")})}
    # scratch copy with the change, and one without
    d = tempfile.mkdtemp(prefix="seed_", dir="/tmp")
    try:
        with_c, without = os.path.join(d, "with"), os.path.join(d, "without")
        for t in (with_c, without):
            subprocess.run(["rsync", "-a", "--exclude", ".git", "--exclude", "__pycache__", "--exclude", ".pytest_cache", "/repo/", t + "/"], check=True)
            shutil.copy(demo, t)
        rc, o = sh(["patch", "-p1", "-s", "-i", os.path.join(out, "patch.diff")], cwd=with_c)
        meta["patch_applies_to_repo_head"] = rc == 0
        if rc != 0:
            print("patch does not apply to /repo HEAD:", o[-300:])
        rc, o = sh(["/venv/bin/python", "-m", "pytest", "-q", "-p", "no:cacheprovider"], cwd=with_c, timeout=900)
        meta["tests_with_change"] = o.strip().splitlines()[-1] if o.strip() else ""
        meta["tests_pass_with_change"] = rc == 0
        rc1, o1 = sh(["/venv/bin/python", os.path.basename(demo)], cwd=with_c, timeout=600)
        rc0, o0 = sh(["/venv/bin/python", os.path.basename(demo)], cwd=without, timeout=600)
        meta["demo_rc_with_change"], meta["demo_rc_without_change"] = rc1, rc0
        meta["demo_output_with_change"] = o1.strip()[-600:]
        meta["confirmed"] = bool(meta["tests_pass_with_change"] and rc1 != 0 and rc0 == 0 and meta["patch_applies_to_repo_head"])
        meta["checks"] = {}
        for c in checks:
            env = dict(os.environ, VERIF_REPO=with_c)
            rc, o = sh([os.path.join(V, "check"), c, "--tier", "quick"], env=env, timeout=3600)
            lines = o.strip().splitlines()
            vio = [l for l in lines if l.startswith("VIOLATION")]
            first = next((lines[i + 1].strip() for i, l in enumerate(lines) if l.startswith("VIOLATION") and i + 1 < len(lines)), "")
            meta["checks"][c] = {"rc": rc, "violations": len(vio), "first": first[:400], "summary": lines[-1][:300] if lines else ""}
        meta["what_ran"] = ["repository test suite in a copy of /repo with the patch", "demo with and without the patch",
                            "./check <id> --tier quick with VERIF_REPO pointing at the patched copy"]
    finally:
        shutil.rmtree(d, ignore_errors=True)
    json.dump(meta, open(os.path.join(out, "meta.json"), "w"), indent=1)
    print(json.dumps({k: meta[k] for k in ("confirmed", "tests_with_change", "demo_rc_with_change", "demo_rc_without_change")}, indent=0))
    for c, r in meta["checks"].items():
        print(f"  {c}: rc={r['rc']} violations={r['violations']} :: {r['first'][:260]}")
    return 0


sys.exit(main())
