#!/usr/bin/env python3
"""Regenerate the table of seeded changes (DESIGN.md 8.4) from seeded/*/meta.json and add the
hand-written 'needs' / history notes to each meta.json."""
import glob, json, os
V = os.path.dirname(os.path.dirname(os.path.abspath(__file__)))
NOTES = {
 "C01-sign-boundary": ("sign extension `number_int > signed_mask` instead of a bit test", "only the most negative raw of a signed field; visible on the 5 fields whose database range includes it (129029 altitude, 129541 x3, 130818)", ""),
 "C02-offset-in-ticks": ("`encode_number`: `value / resolution - offset`", "a field with non-zero offset AND non-unit resolution: only 127513 peukertExponent", ""),
 "C03-record-reuse": ("reassembly record reused after completion (keeps the last counter) instead of deleted", "two messages on one stream exactly 8k fast messages apart on a shared encoder counter", "MISSED by the first C03 (single-stream chains only); C03 part (d) added: all sequences over 2-3 streams sharing one encoder counter"),
 "C04-bytes-stored-not-reset": ("`bytes_stored` not reset when a first frame restarts the buffer", "a partial message followed by a message with another counter on the same stream", ""),
 "C05-pdu1-boundary-encoder": ("`_build_header`: `pf < 0xEF`", "PF == 0xEF (PGN 61184 / 126720) with a destination", ""),
 "C06-checksum-skips-byte18": ("checksum over `data[2:18]`", "corruption of the reserved byte 18 only", ""),
 "C07-data-page-dropped-pdu1": ("`_extract_header` drops the data page for PDU1", "addressed PGNs on data page 1 (126208/126464/126720) through an identifier-carrying format", ""),
 "C08-fusion-mask": ("dispatcher arm compares `& 0xFF` of a 16-bit match field", "proprietary id with low byte 0x18 and non-zero high byte", ""),
 "C09-signed-sentinel-encodable": ("signed `max_val` = 2^(n-1)-1", "a value exactly one step past the largest representable value of a signed field", ""),
 "C10-early-include-ignores-ids": ("early numeric include test no longer skipped when id entries exist", "include list mixing numbers and ids, traffic listed by id only", ""),
 "C11-reuse-identity-low32": ("re-claim compared on the low 32 bits of the NAME only", "re-claim from the same address with same unique number + manufacturer but other instance/function/class", "MISSED by the first C11 (every NAME had its own unique number); NAME alphabet now has re-claims that differ from NAME a in exactly one part"),
 "C12-trailing-aa-dropped": ("serial buffer cleared when no marker is found (trailing 0xAA lost)", "a read boundary exactly between AA and 55", ""),
 "C13-retry-only-connection-errors": ("`retry_if_exception_type(ConnectionError)`", "a connect that fails with OSError(EHOSTUNREACH) / TimeoutError / SerialException rather than ECONNREFUSED", "MISSED by the first C13 (fake gateway only refused); connect outcomes unreachable / timeout / noport added (bases u2 / n2, special unreach_next)"),
 "C14-closed-check-hoisted": ("CLOSED tested once before the retry loop", "close() during the back-off sleep", ""),
 "C15-dump-decision-cached-per-pgn": ("dump decision cached per PGN number", "dump filter by id + two definitions sharing one PGN in the stream", ""),
 "C16-reset-before-validation": ("reassembly record reset before the length byte is read", "a truncated first frame (1 data byte) in the middle of a reassembly", ""),
 "C17-absent-key-skipped": ("absent key fields left out of the hash key", "two nullable key fields with 'not available' in swapped positions", ""),
 "C18-knots-factor-rounded": ("m/s -> knots factor 1.94384", "speeds whose product lands just above an x.x5 boundary (>= 27.6 m/s)", ""),
 "C19-single-packet-fast-path": ("single-packet messages bypass the send lock", "a single-frame send while a multi-frame send is suspended by back-pressure", ""),
 "C20-del-minus-zero": ("`del buf[:-keep]` with keep == 0", "marker-free noise whose reads do not end in 0xAA", ""),
 "C01r2-bitlookup-cache-by-positions": ("module-level cache of bit-lookup text keyed by (raw, bit positions of the table)", "two bit-lookup tables with the same bit positions, same raw, decoded in one process", "caught (tables of different PGNs meet in one worker); a dedicated history pass (all definitions of every PGN forward/backward/again on one decoder) was added anyway"),
 "C02r2-encode-func-cached-per-pgn": ("encode function cached per PGN on the encoder instance", "two definitions of one PGN encoded by the same encoder", ""),
 "C03r2-short-fast-single-frame": ("fast-packet PGN with a payload <= 8 bytes sent as one raw frame", "short fast-packet payloads through the public encode path", ""),
 "C04r2-seq-mask-2bits": ("sequence counter read with mask 0x60", "a partial message followed by one whose counter differs by 4", ""),
 "C05r2-pdu-split-cache-drops-dp": ("module-level cache of the PDU split keyed by PF/PS (data page lost)", "two identifiers differing only in bits 24-25 parsed in one process", "first run CRASHED the harness (helper message could not be decoded): helper failure is now a violation; the identifier sweep itself reports it"),
 "C06r2-ebyte-read13": ("EByte client `read(13)` instead of `readexactly(13)`", "a packet split across reads", ""),
 "C07r2-transport-type-cached": ("fast/single decision cached per PGN on the decoder, ignoring `already_combined`", "one decoder seeing the same fast PGN both pre-assembled and frame by frame", "MISSED by the first C07 (fresh decoder per rendering); all renderings are now also fed to one shared decoder in two orders"),
 "C08r2-unmatched-pgn-blacklisted": ("a PGN is blacklisted once a payload matched no definition", "an unmatched payload before a matching one on the same decoder (PGNs without fallback)", ""),
 "C09r2-absent-signed-all-ones": ("absent value always encoded as all ones", "absent value on a signed NUMBER field", ""),
 "C10r2-id-verdict-cached-per-pgn": ("id filter verdict cached per PGN number", "id filter on a multi-definition PGN, another definition of that PGN first", ""),
 "C11r2-manufacturer-pass-cached": ("manufacturer verdict cached per source address", "allowed claim, data, then re-claim by an excluded manufacturer", ""),
 "C12r2-message-reset-hoisted": ("`message = None` hoisted out of the Waveshare packet loop", "a packet that makes the decoder *raise* right after a good packet in the same read", "MISSED by the first C12/C20 (their bad packets only failed the checksum): a well-framed packet that makes the decoder raise was added to both alphabets"),
 "C13r2-reconnect-only-if-connected": ("receive-loop handler reconnects only when state is CONNECTED", "send() failing while connect() still holds its lock inside a slow CONNECTED callback, and no later send", "MISSED by the first C13: added send() as a special, sessions without a trailing send, and a status callback that is slow for the first notification only"),
 "C14r2-receive-loop-closed-guard": ("CLOSED guard removed from the receive-loop handler", "link fault while close() is suspended in a slow status callback", ""),
 "C15r2-dump-twice-number-and-id": ("message listed by number and by id dumped twice", "dump filter naming one message both ways", ""),
 "C16r2-lru-cache-shared-message": ("module-level lru_cache of decoded message objects", "same payload decoded twice (other source / other configuration)", "MISSED by the first C16 (same values written twice are invisible): a decoder with unit preferences, object-identity and returned-message-stability checks and fresh-decoder baselines for single-frame events were added"),
 "C17r2-key-positions-cached-per-pgn": ("primary-key positions cached per PGN (module level)", "two definitions of one PGN with different key layouts, in a particular order", ""),
 "C18r2-units-skip-cached-per-pgn": ("'has a preferred quantity' cached per PGN on the decoder", "a definition without convertible fields decoded before a sibling that has one", "MISSED by the first C18 (definitions handled independently): every ordered pair of definitions sharing a PGN is now decoded on one decoder"),
 "C19r2-shared-packet-list": ("encoder reuses one packet list per instance", "second send() encoding while the first is suspended in drain()", ""),
 "C20r2-checksum-byte-left": ("packet cut one byte short (checksum byte stays in the buffer)", "a packet whose checksum is 0xAA followed by noise starting with 0x55", "MISSED by the first C20 (valid packets ending in 0xAA were excluded by an assertion): packet P4 (checksum 0xAA) and noise N55 added"),
 "C01r3-lower-bound-without-epsilon": ("rounding tolerance dropped from the lower range bound only", "signed fields at their most negative in-range raw (4 of 80 signatures)", ""),
 "C02r3-error-code-decodes-as-absent": ("second-highest raw ('error' code) decodes as absent too", "a field carrying exactly that raw", ""),
 "C03r3-frame-counter-4bit-mask": ("frame counter masked to 4 bits in the encoder", "payloads of 112 bytes or more (17+ frames)", ""),
 "C04r3-short-message-skips-restart": ("messages that fit into their first frame are decoded without restarting the buffer", "partial message, then a <=6-byte message, then a message reusing the first counter", "MISSED by the first C04 (all messages were multi-frame): counter cycles containing 5- and 6-byte messages added"),
 "C05r3-dest-zero-falsy": ("`ps = dest or 0xFF`", "PDU1 PGN addressed to destination 0", ""),
 "C06r3-pdu1-boundary-encoder-0xEF": ("`pf < 0xEF` in the encoder (same slip as C05 round 1, found independently)", "PF == 0xEF with a destination", ""),
 "C07r3-record-reuse-keeps-counter": ("reassembly record reset in place, counter kept", "two consecutive messages on a stream with the same counter", ""),
 "C08r3-arms-swapped-130820": ("two dispatcher arms swapped (generic arm shadows the specific one)", "PGN 130820 messageId 32788 with id 9", ""),
 "C09r3-floor-division-int-resolution": ("integer floor division when value and resolution are Python ints", "an int value between two steps of a field whose resolution is an integer > 1", "MISSED by the first C09 (between-step values were floats): int between-step values added for integer resolutions"),
 "C10r3-filtered-fast-record-kept": ("completed reassembly record not deleted when the message is filtered by id", "id filter on a multi-definition fast-packet PGN, next message with the same counter", "MISSED by the first C10 (no id filter on a fast-packet definition): two fast-packet definition ids and a second 130816 definition with the same counter added"),
 "C11r3-fast-identity-at-first-frame": ("identity captured when frame 0 arrives", "a claim between the frames of a fast-packet message", ""),
 "C12r3-reader-limit-256": ("`open_connection(..., limit=256)` in the text clients", "an Actisense record longer than 256 bytes (payload > 116 bytes)", "MISSED by the first C12 (the fake connection factory ignored `limit`, and no long valid line existed): the fake honours the requested limit and 134/223-byte payload records were added"),
 "C13r3-serial-buffer-survives-reconnect": ("Waveshare reassembly buffer not reset on reconnect", "a fault in the middle of a packet", ""),
 "C14r3-send-closed-check-before-await": ("CLOSED check moved from send()'s failure handler to its top", "close() while a send() is suspended in drain() under back-pressure", "MISSED by the first C14 (no back-pressure in its sessions): sessions whose transport suspends every write were added"),
 "C15r3-dump-before-unit-conversion": ("dump written before the unit conversion", "dumping + unit preferences + a convertible field", "caught thanks to the feature-interaction variants added just before this round"),
 "C16r3-unmatched-layout-silences-pgn": ("a PGN is blacklisted once a payload matched no definition (decoder level)", "an ignored unmatched frame of a multi-definition PGN before a valid one", "MISSED by the first C16 (no multi-definition single-frame PGN in its alphabet): unmatched / matching 65285 frames added, with fresh-decoder baselines"),
 "C17r3-no-hash-without-identity": ("hash only set when the source identity is known", "a source that never claims, after the 10-minute discovery window", "MISSED by the first C17 (clock frozen inside the window): the frozen clock can be moved; a pass 11 minutes after start added"),
 "C18r3-fahrenheit-truncation": ("`int(x + 0.5)` instead of round() for Fahrenheit", "results below 0 F", ""),
 "C19r3-send-except-narrowed": ("send() handles only ConnectionError / AssertionError", "a write failing with TimeoutError / OSError / RuntimeError", "MISSED by the first C19: with a transport that closes on a failed write (as asyncio's do) the read path still reports the loss, so nothing observable changed; write-only failures (write() raises, read side healthy) and non-ConnectionError error types were added"),
 "C20r3-checksum-over-used-bytes": ("checksum verified over the used payload bytes only", "corruption in the padding of a frame with fewer than 8 data bytes", "MISSED by the first C20 (only 8-byte frames): a 3-byte frame and corrupted padding / reserved-byte variants added (C06's corruption sweep caught it)"),
 # round 4
 "C01r4-offset-before-resolution": ("`(raw + offset) * resolution` in decode_number", "a field with an offset and a resolution other than 1 (PGN 127513 peukertExponent only)", ""),
 "C02r4-signed-min-off-by-one": ("signed lower bound `-max - 1` with max one too small: the most negative raw is refused on encode", "a signed field at its most negative raw (130818, 129029 altitude)", ""),
 "C03r4-short-fast-path-skips-counter": ("early return for payloads that fit into the first frame skips the counter increment", "a fast-packet message of <= 6 bytes followed by another fast-packet message", ""),
 "C04r4-zero-length-padding": ("payload cut with `[-payload_length:]`", "announced length 0 in a padded frame: the padding comes back as payload", "MISSED by the first C04 (shortest message 5 bytes): counter cycles with 0- and 1-byte messages in padded frames added"),
 "C05r4-pf-not-masked": ("PF / DP no longer masked after shifting", "identifiers with the data-page / reserved bits set", ""),
 "C06r4-dest-zero-falsy": ("`ps = dest or 0xFF` (same slip as C05 round 3, found independently)", "PDU1 PGN addressed to destination 0", ""),
 "C07r4-completion-only-on-continuation": ("completion tested only when a continuation frame arrives", "fast-packet messages of <= 6 bytes in frame-wise formats", ""),
 "C08r4-match-zero-dropped": ("`== 0` match conditions dropped from the generated dispatcher (template truthiness)", "definitions selected by a match value of 0 (7 arms)", ""),
 "C09r4-offset-in-ticks": ("`value / resolution - offset` in encode_number", "field with offset and resolution != 1: out-of-range 0.002-0.508 accepted and corrupted, every valid value refused", "MISSED by the first C09 (a definition whose decoded base no longer encodes was skipped altogether, and no value below the offset other than one step was tried): such definitions are kept, and offset-confusion values were added for every field with an offset"),
 "C10r4-stale-identity-when-claims-filtered": ("with the claim PGN filtered a re-claim keeps the old identity", "network map + claim PGN filtered + the same source claiming again with another NAME", "MISSED by the first C10 (each source claimed one NAME only): a second NAME per source added (C11 caught it)"),
 "C11r4-source-map-class-attribute": ("source -> identity map declared as a class attribute: shared by all decoder instances", "two decoders in one process", ""),
 "C12r4-decode-except-narrowed": ("text clients catch only ValueError around the decode call", "a well-formed line the decoder rejects with another exception type (bare Exception for 126208, IndexError for a 1-byte fast PGN)", "MISSED by the first C12 (every undecodable line in the text alphabets raised ValueError): one such line per text client added"),
 "C13r4-readline-except-widened": ("`except Exception` around readline(): connection errors are swallowed as 'unreadable line'", "a reset while the text client is reading", ""),
 "C14r4-closed-set-last": ("state set to CLOSED only after everything was released (several awaits later)", "observing the client between close() being entered and returning", ""),
 "C15r4-midnight-raw-falsy": ("`if field.raw_value:` for a TIME field in the generated encoder", "time 00:00:00 (raw 0.0) after a JSON round trip", ""),
 "C16r4-seq-mask-2bits": ("sequence counter masked to 2 bits in the reassembly key", "stale partial message and a new one whose counters differ by 4", ""),
 "C17r4-key-ascii-ignore": ("primary key encoded as ASCII with errors ignored before hashing", "key strings that differ only in non-ASCII characters (station ids of 130320/130322/130323/130324)", "MISSED by the first C17 (string alphabets were ASCII or undecodable bytes): UTF-8 and UTF-16 non-ASCII strings added to the STRING_LAU alphabet (used by every payload-based check)"),
 "C18r4-bar-rounded-3-decimals": ("bar conversion rounded to 3 decimals", "pressure fields with 0.1 Pa resolution (130314/130315)", ""),
 "C19r4-finally-releases-foreign-lock": ("send lock released in `finally` whenever it is locked", "sender suspended in drain(), then an unencodable send, then a third sender", "MISSED by the first C19 (bad messages were only sent alone): an unencodable message before / between / after two good ones under every back-pressure pattern added"),
 "C20r4-return-on-decode-error": ("Waveshare client returns before cutting the packet when the decoder raises", "a well-framed packet the decoder rejects: it is retried forever and the buffer grows", ""),
 # round 5
 "C01r5-time-86400-guard": ("decode_time guard `> 86400` instead of `>= 86400`", "a TIME field of 86400.0-86400.9999 s (inside the database range 0..86401)", ""),
 "C02r5-one-bit-sentinel": ("1-bit fields no longer treat their top code as absent on decode (encode still does)", "a 1-bit NUMBER field with the bit set (129556 cna)", ""),
 "C03r5-counter-never-wraps": ("`self.sequence_counter += 1 % 8`", "the 9th fast-packet message of one encoder", ""),
 "C04r5-restart-only-on-greater-counter": ("a first frame restarts the record only if its counter is greater than the stored one", "a message that lost frames followed by one with a smaller counter (wrap 7 -> 0)", ""),
 "C05r5-priority-modulo-7": ("`priority % 0x7` in the encoder's identifier", "priority 7", ""),
 "C06r5-pdu1-mask-drops-data-page": ("`pgn_id_raw & 0xFF00` for PDU1 identifiers", "data-page-1 addressed PGNs (126208, 126464, 126720) through a frame-level format", ""),
 "C07r5-reassembly-key-without-destination": ("reassembly key without the destination", "one source interleaving two fast-packet messages of an addressed PGN to two destinations", "MISSED by the first C07 (one message at a time): every fast-packet definition is now also sent as two interleaved streams (two sources; two destinations) through the four frame-level formats (C04 caught it)"),
 "C08r5-variant-cache-24-bits": ("per-decoder cache of the chosen definition keyed on PGN + first 3 payload bytes", "two payloads of one PGN that agree in the first 3 bytes and differ in a deeper match field", ""),
 "C09r5-encode-func-cached-per-pgn": ("encode function cached per PGN on the encoder (as C02 round 2, found independently)", "two definitions of one PGN that share field ids, on one encoder", "MISSED by the first C09 (definitions of one PGN were spread over different workers / encoders): definitions sharing a PGN now stay together and are exercised again forward and backward on one encoder (C02 caught it)"),
 "C10r5-claim-filter-per-list": ("'claim is filtered' computed per include list", "a mixed number/id include list that names the address claim in one form only", ""),
 "C11r5-window-uses-message-timestamp": ("discovery window measured against the message's time stamp", "Actisense lines from a gateway that has been up for more than 10 minutes (or a log dated in the future)", "MISSED by the first C11 (EByte entry point only): the data events now also arrive as Actisense lines with a two-day uptime stamp and as plain lines dated 2099"),
 "C12r5-buffer-created-in-constructor": ("Waveshare reassembly buffer created in the constructor, no longer reset per connection", "a link that drops in the middle of a packet, then a clean stream on the new connection", "MISSED by the first C12 (single connection per session): a connection dropped after every prefix of a packet followed by a clean stream on the next connection, for all four clients (C13 caught it)"),
 "C13r5-connected-reported-after-receive-start": ("CONNECTED reported after the receive task was started, still under the connect lock", "a status callback that suspends + a fault during it", ""),
 "C14r5-state-stored-after-callback": ("state stored after the status callback returns", "close() landing while a slow status callback is running", ""),
 "C15r5-from-json-destination-or-255": ("`data.get('destination') or 255` in from_json", "a message addressed to destination 0", "MISSED by the first C15 (one addressing for every case): priority / source / destination now vary with the case over the extreme legal values, and the EByte packets of original and parsed message are compared too"),
 "C16r5-isoname-cache-low-32-bits": ("process-wide cache of parsed NAMEs keyed on the low 32 bits", "two claims that differ only in instance / function / class, on any decoders of the process", "MISSED by the first C16 (no claims in its alphabet, and a same-process 'fresh decoder' baseline cannot see a process-wide cache): a two-decoder search over 8 NAMEs differing in single parts, judged against the database decode of the NAME (C11 caught it)"),
 "C17r5-key-join-without-separator": ("key values joined without a separator", "two or more key fields whose digits can be split differently: (1, 12) and (11, 2)", "MISSED by the first C17 (key fields varied one at a time): every pair of key fields over a 22 x 22 grid of small raws"),
 "C18r5-units-not-applied-to-reassembled": ("unit conversion moved to a place the fast-packet reassembly path does not reach", "a fast-packet message arriving frame by frame on a decoder with preferences", "MISSED by the first C18 (pre-assembled plain lines only): every definition with a convertible field through six entry points (frame by frame for fast-packet messages)"),
 "C19r5-assert-writer-before-encode": ("`assert self.writer` moved before the encode call", "an unsendable message on a client that never connected: it starts connecting", "MISSED by the first C19 (bad messages only in sessions that connect anyway): unsendable messages on a client on which connect() was never called"),
 "C20r5-buffer-reset-only-once": ("Waveshare buffer reset only on the first connection (same effect as C12 round 5, found independently)", "link dropped in mid-packet, reconnect, clean stream; a crafted left-over even yields a packet that was never sent", "MISSED by the first C20 (single connection): part (c) drops the connection after every prefix of a packet (also one crafted to pass the checksum when glued to the next stream) and requires the clean stream of the next connection to arrive exactly"),
}
rows = []
for d in sorted(glob.glob(os.path.join(V, "seeded", "*"))):
    mp = os.path.join(d, "meta.json")
    if not os.path.exists(mp):
        continue
    m = json.load(open(mp))
    name = os.path.basename(d)
    ch, needs, hist = NOTES.get(name, ("", "", ""))
    m["change"], m["needs_to_manifest"], m["history"] = ch, needs, hist
    json.dump(m, open(mp, "w"), indent=1)
    verdicts = "; ".join(f"{c}: {'caught' if r['rc'] == 1 and r['violations'] else 'NOT caught'} ({r['first'].split(' ')[0].replace('kind=', '')})" for c, r in m["checks"].items())
    rows.append(f"| `{name}` | {m['property']} | {ch} | {needs} | {m.get('tests_with_change', '')} | {verdicts}{' — ' + hist if hist else ''} |")
print("| seeded change | prop | change | needs | repo tests | verdict of the checks |")
print("|---|---|---|---|---|---|")
print("\n".join(rows))
