#!/usr/bin/env python3
"""tools/seed_prompts.py <round-number> [ids...]

Prepare a round of independent seeded changes: one scratch worktree of /repo per property under
/tmp/wt<round>_<ID> and one prompt file /tmp/agent<round>_prompt_<ID>.txt.  A prompt contains the
template (tools/seed_prompt_template.txt), the text of ONE property, the list of mechanisms earlier
rounds already used for that property (from seeded/*/meta.json) and a steering paragraph; nothing
from /verif is shown to the sub-agent.  Worktrees are removed after evaluation
(git -C /repo worktree remove --force <dir>)."""
import glob
import json
import os
import subprocess
import sys

V = os.path.dirname(os.path.dirname(os.path.abspath(__file__)))
HAND = {
    'C01': 'sentinel rule for 4-bit fields; a bit offset shifted by one in one generated decoder; a renamed lookup entry',
    'C02': 'round() dropped in encode_number; a wrong shift in one generated encode line; signed not-available pattern',
    'C03': 'frame count off by one; sequence counter not advanced; completion test altered',
    'C04': 'frames.clear() removed; stream key without destination; duplicate test removed',
    'C05': 'pf <= 0xF0 in the decoder; data page masked to 1 bit in the encoder; Actisense destination masked',
    'C06': 'CR LF -> LF; EByte zero padding removed',
    'C07': 'byte reversal dropped in the Yacht Devices front end',
    'C08': 'a 3-bit mask reduced to 2 bits in the 65280 dispatcher; == turned into >= in one arm',
    'C09': 'bounds check removed in encode_number; unsigned maximum off by one',
    'C10': '.lower() dropped in split_pgn_list; address claims subjected to the early numeric exclude',
    'C11': 'stale identity never replaced; manufacturer compare without lower(); discovery window test inverted; instance shift',
    'C12': 'readexactly(13) -> read(13); try/except around the receive callback removed',
    'C13': 'back-off multiplier 0; reconnect task removed from the read-failure path; old receive task not cancelled; back-off cap lowered',
    'C14': 'CLOSED re-check removed from the retry loop; _update_state guard removed; writer.close() removed; consumer task not cancelled',
    'C15': 'default() returning str(obj) for bytes; dump newline dropped; from_json dropping raw values',
    'C16': 'reassembly dict hoisted to a class attribute; split_pgn_list aliasing the caller list',
    'C17': 'builtin hash() instead of MD5; source added to the key; value instead of raw_value',
    'C18': '273.15 -> 273; degree fields converted twice; kts label not set; absent speed -> 0.0; preference not lower-cased',
    'C19': 'send lock taken per packet instead of per message',
    'C20': 'trailing 0xAA not kept; checksum test dropped; noise before a marker not trimmed',
}
STEER = {
    "codec": "Pick your own angle, but make it one that none of the attempts above used. Some unexplored corners: "
             "nmea2000/utils.py helpers used by only a handful of definitions (decode_bit_lookup, decode_indirect_lookup, "
             "decode_float, decode_date, decode_time, decode_string_fix, decode_string_lz, decode_binary and their encode "
             "counterparts); the hand-written parts of decoder.py / encoder.py around the generated code (how the payload integer "
             "is built from bytes, byte order, the length passed to variable-length fields, how 'already combined' input is "
             "handled); nmea2000/message.py (NMEA2000Field / IsoName construction, equality, __post_init__, defaults shared "
             "between instances); numerical corner cases (values exactly half a step, the largest 64-bit values, resolution "
             "1e-7 / 1e-16 fields, negative zero, floats that print in exponent notation, ints passed where floats are "
             "expected and vice versa). The change must be small and look like an honest mistake.",
    "state": "Pick your own angle, but make it one that none of the attempts above used. Some unexplored corners: what "
             "happens at exactly the boundary of a limit (32 frames, 223 bytes, 8 sequence counters, 10 minutes, 253 "
             "sources, 29-bit identifiers with the top bits set), error paths (an exception raised half-way through handling "
             "a frame: what was already modified?), objects handed out to the caller and later reused internally, the order "
             "of dictionary iteration or of list removal while iterating, default arguments evaluated once, comparison of "
             "objects by identity instead of value, integer keys versus string keys for the same thing, and any place where "
             "two representations of the same fact (a flag and a collection, a counter and a length) can drift apart.",
    "async": "Pick your own angle, but make it one that none of the attempts above used. Some unexplored corners: the tenacity "
             "retry configuration (which exceptions are retried, what happens on an exception that is not retried, "
             "before_sleep), cancellation arriving at each particular await (CancelledError inside connect(), inside the "
             "receive loop's error handler, inside _update_state), the network-map seeding task (started per connect, "
             "cancelled when?), what send() does in each client state (DISCONNECTED, reconnecting, CLOSED) and for each "
             "client class (Actisense has no encoder; Waveshare writes a configuration packet first), transports that report "
             "errors through connection_lost(exc) versus through the next read, half-closed links, writer.close() / "
             "wait_closed() semantics, and differences between TCP and serial clients in any of the above.",
}
GROUP = {**{f"C{i:02d}": "codec" for i in (1, 2, 5, 6, 7, 8, 9, 15, 17, 18)}, **{f"C{i:02d}": "state" for i in (3, 4, 10, 11, 16)},
         **{f"C{i:02d}": "async" for i in (12, 13, 14, 19, 20)}}


def main():
    rnd = sys.argv[1]
    only = sys.argv[2:]
    props = {}
    for line in open(os.path.join(V, "properties.jsonl")):
        if line.strip():
            p = json.loads(line)
            props[p["id"]] = p
    tried = {}
    for d in sorted(glob.glob(os.path.join(V, "seeded", "*"))):
        m = json.load(open(os.path.join(d, "meta.json")))
        tried.setdefault(m["property"], []).append(m.get("change", ""))
    tmpl = open(os.path.join(V, "tools", "seed_prompt_template.txt")).read()
    for pid in sorted(props):
        if only and pid not in only:
            continue
        wt = f"/tmp/wt{rnd}_{pid}"
        if not os.path.isdir(wt):
            subprocess.run(["git", "-C", "/repo", "worktree", "add", "--detach", wt, "HEAD", "-q"], check=True)
        p = props[pid]
        text = "\n".join(f"{k}: {p[k]}" for k in ("title", "statement", "why_tests_cant") if k in p)
        s = tmpl.replace("__WT__", wt).replace("__PROP__", text).replace("__ID__", pid)
        diff = f"/tmp/change{rnd}_{pid}.diff"
        old = s[s.index("Verify both: run it with your change applied (must fail), then"):s.index("Run it as:")]
        new = (f"Verify both: run it with your change applied (must fail); then save your change with `git diff > {diff}`, revert it "
               f"with `git apply -R {diff}`, run the demo again (must pass), and re-apply the change with `git apply {diff}` so it is "
               "applied again at the end. IMPORTANT: never use `git stash` (the stash is shared between several worktrees that other "
               "people are using at the same time). ")
        s = s.replace(old, new)
        extra = ("\n\nALREADY TRIED by other engineers for this property (do NOT repeat these or close variants of them; pick a clearly "
                 "different mechanism, code path or input class): " + "; ".join(dict.fromkeys(x for x in tried.get(pid, []) if x))
                 + "; " + HAND[pid] + ".\n" + STEER[GROUP[pid]] + "\n")
        s = s.replace("\nIn your final answer report briefly:", extra + "\nIn your final answer report briefly:")
        s = s.replace("under 400 words", "under 250 words")
        open(f"/tmp/agent{rnd}_prompt_{pid}.txt", "w").write(s)
        print(pid, wt, len(s))


main()
