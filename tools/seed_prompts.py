#!/usr/bin/env python3
"""tools/seed_prompts.py <round-number> [ids...]

Prepare a round of independent seeded changes: one scratch worktree of /repo per property under
/tmp/wt<round>_<ID> and one prompt file /tmp/agent<round>_prompt_<ID>.txt.  A prompt contains the
template (tools/seed_prompt_template.txt), the text of ONE property, the list of mechanisms earlier
rounds already used for that property (from seeded/*/meta.json) and a steering paragraph; nothing
from /verif is shown to the sub-agent.  Worktrees are removed after evaluation
(git -C /repo worktree remove --force <dir>)."""
import glob
import json
import os
import subprocess
import sys

V = os.path.dirname(os.path.dirname(os.path.abspath(__file__)))
HAND = {
    'C01': 'sentinel rule for 4-bit fields; a bit offset shifted by one in one generated decoder; a renamed lookup entry',
    'C02': 'round() dropped in encode_number; a wrong shift in one generated encode line; signed not-available pattern',
    'C03': 'frame count off by one; sequence counter not advanced; completion test altered',
    'C04': 'frames.clear() removed; stream key without destination; duplicate test removed',
    'C05': 'pf <= 0xF0 in the decoder; data page masked to 1 bit in the encoder; Actisense destination masked',
    'C06': 'CR LF -> LF; EByte zero padding removed',
    'C07': 'byte reversal dropped in the Yacht Devices front end',
    'C08': 'a 3-bit mask reduced to 2 bits in the 65280 dispatcher; == turned into >= in one arm',
    'C09': 'bounds check removed in encode_number; unsigned maximum off by one',
    'C10': '.lower() dropped in split_pgn_list; address claims subjected to the early numeric exclude',
    'C11': 'stale identity never replaced; manufacturer compare without lower(); discovery window test inverted; instance shift',
    'C12': 'readexactly(13) -> read(13); try/except around the receive callback removed',
    'C13': 'back-off multiplier 0; reconnect task removed from the read-failure path; old receive task not cancelled; back-off cap lowered',
    'C14': 'CLOSED re-check removed from the retry loop; _update_state guard removed; writer.close() removed; consumer task not cancelled',
    'C15': 'default() returning str(obj) for bytes; dump newline dropped; from_json dropping raw values',
    'C16': 'reassembly dict hoisted to a class attribute; split_pgn_list aliasing the caller list',
    'C17': 'builtin hash() instead of MD5; source added to the key; value instead of raw_value',
    'C18': '273.15 -> 273; degree fields converted twice; kts label not set; absent speed -> 0.0; preference not lower-cased',
    'C19': 'send lock taken per packet instead of per message',
    'C20': 'trailing 0xAA not kept; checksum test dropped; noise before a marker not trimmed',
}
STEER = {
    "codec": "Choose a mechanism that is NOT in the list above; the list is long, so be inventive. Angles nobody has used yet: "
             "a change in nmea2000/consts.py (an enum member renamed, renumbered or aliased); in how NMEA2000Field / "
             "NMEA2000Message are constructed (argument order, a default, a field silently dropped or duplicated); in the "
             "handling of repeated field sets, of fields that depend on an earlier field (BINARY length, INDIRECT_LOOKUP, "
             "DYNAMIC_FIELD_*), of the LAST field of a definition, of definitions shorter than their frame; in lookups whose "
             "values are bit masks; in string trimming rules ('@', blanks, 0x00, 0xFF terminators); in the interplay of "
             "`value is None` and `raw_value is None`. Keep the change tiny and plausible.",
    "state": "Choose a mechanism that is NOT in the list above; the list is long, so be inventive. Angles nobody has used yet: "
             "what the decoder does with its OUTPUT objects (returning an object it keeps and later changes; two messages sharing "
             "a fields list or an IsoName); per-source state other than the identity (anything keyed by source that survives a "
             "re-claim); the dump file handle (opened when, flushed when, closed when, reopened after close()); the decoder's "
             "close(); unsupported / unknown PGN bookkeeping (sets that decide whether something is logged or skipped); the "
             "order in which include / exclude / dump / manufacturer checks are applied when several are configured at once.",
    "async": "Choose a mechanism that is NOT in the list above; the list is long, so be inventive. Angles nobody has used yet: "
             "the client's decoder and encoder objects across reconnects (re-created? shared? closed in close()?), the dump "
             "file of a client's decoder at close(), logging calls that evaluate something expensive or failing (an f-string that "
             "raises), set_receive_callback / set_status_callback called with None, a client used from two event loops one after "
             "the other, a client constructed outside a running loop, the State enum and its comparisons, properties that "
             "expose internal objects (queue, lock), and anything in cli.py or __init__.py that wires these together.",
}
GROUP = {**{f"C{i:02d}": "codec" for i in (1, 2, 5, 6, 7, 8, 9, 15, 17, 18)}, **{f"C{i:02d}": "state" for i in (3, 4, 10, 11, 16)},
         **{f"C{i:02d}": "async" for i in (12, 13, 14, 19, 20)}}


def main():
    rnd = sys.argv[1]
    only = sys.argv[2:]
    props = {}
    for line in open(os.path.join(V, "properties.jsonl")):
        if line.strip():
            p = json.loads(line)
            props[p["id"]] = p
    tried = {}
    for d in sorted(glob.glob(os.path.join(V, "seeded", "*"))):
        m = json.load(open(os.path.join(d, "meta.json")))
        tried.setdefault(m["property"], []).append(m.get("change", ""))
    tmpl = open(os.path.join(V, "tools", "seed_prompt_template.txt")).read()
    for pid in sorted(props):
        if only and pid not in only:
            continue
        wt = f"/tmp/wt{rnd}_{pid}"
        if not os.path.isdir(wt):
            subprocess.run(["git", "-C", "/repo", "worktree", "add", "--detach", wt, "HEAD", "-q"], check=True)
        p = props[pid]
        text = "\n".join(f"{k}: {p[k]}" for k in ("title", "statement", "why_tests_cant") if k in p)
        s = tmpl.replace("__WT__", wt).replace("__PROP__", text).replace("__ID__", pid)
        diff = f"/tmp/change{rnd}_{pid}.diff"
        old = s[s.index("Verify both: run it with your change applied (must fail), then"):s.index("Run it as:")]
        new = (f"Verify both: run it with your change applied (must fail); then save your change with `git diff > {diff}`, revert it "
               f"with `git apply -R {diff}`, run the demo again (must pass), and re-apply the change with `git apply {diff}` so it is "
               "applied again at the end. IMPORTANT: never use `git stash` (the stash is shared between several worktrees that other "
               "people are using at the same time). ")
        s = s.replace(old, new)
        extra = ("\n\nALREADY TRIED by other engineers for this property (do NOT repeat these or close variants of them; pick a clearly "
                 "different mechanism, code path or input class): " + "; ".join(dict.fromkeys(x for x in tried.get(pid, []) if x))
                 + "; " + HAND[pid] + ".\n" + STEER[GROUP[pid]] + "\n")
        s = s.replace("\nIn your final answer report briefly:", extra + "\nIn your final answer report briefly:")
        s = s.replace("under 400 words", "under 250 words")
        open(f"/tmp/agent{rnd}_prompt_{pid}.txt", "w").write(s)
        print(pid, wt, len(s))


main()
