#!/usr/bin/env python3
"""tools/seed_prompts.py <round-number> [ids...]

Prepare a round of independent seeded changes: one scratch worktree of /repo per property under
/tmp/wt<round>_<ID> and one prompt file /tmp/agent<round>_prompt_<ID>.txt.  A prompt contains the
template (tools/seed_prompt_template.txt), the text of ONE property, the list of mechanisms earlier
rounds already used for that property (from seeded/*/meta.json) and a steering paragraph; nothing
from /verif is shown to the sub-agent.  Worktrees are removed after evaluation
(git -C /repo worktree remove --force <dir>)."""
import glob
import json
import os
import subprocess
import sys

V = os.path.dirname(os.path.dirname(os.path.abspath(__file__)))
HAND = {
    'C01': 'sentinel rule for 4-bit fields; a bit offset shifted by one in one generated decoder; a renamed lookup entry',
    'C02': 'round() dropped in encode_number; a wrong shift in one generated encode line; signed not-available pattern',
    'C03': 'frame count off by one; sequence counter not advanced; completion test altered',
    'C04': 'frames.clear() removed; stream key without destination; duplicate test removed',
    'C05': 'pf <= 0xF0 in the decoder; data page masked to 1 bit in the encoder; Actisense destination masked',
    'C06': 'CR LF -> LF; EByte zero padding removed',
    'C07': 'byte reversal dropped in the Yacht Devices front end',
    'C08': 'a 3-bit mask reduced to 2 bits in the 65280 dispatcher; == turned into >= in one arm',
    'C09': 'bounds check removed in encode_number; unsigned maximum off by one',
    'C10': '.lower() dropped in split_pgn_list; address claims subjected to the early numeric exclude',
    'C11': 'stale identity never replaced; manufacturer compare without lower(); discovery window test inverted; instance shift',
    'C12': 'readexactly(13) -> read(13); try/except around the receive callback removed',
    'C13': 'back-off multiplier 0; reconnect task removed from the read-failure path; old receive task not cancelled; back-off cap lowered',
    'C14': 'CLOSED re-check removed from the retry loop; _update_state guard removed; writer.close() removed; consumer task not cancelled',
    'C15': 'default() returning str(obj) for bytes; dump newline dropped; from_json dropping raw values',
    'C16': 'reassembly dict hoisted to a class attribute; split_pgn_list aliasing the caller list',
    'C17': 'builtin hash() instead of MD5; source added to the key; value instead of raw_value',
    'C18': '273.15 -> 273; degree fields converted twice; kts label not set; absent speed -> 0.0; preference not lower-cased',
    'C19': 'send lock taken per packet instead of per message',
    'C20': 'trailing 0xAA not kept; checksum test dropped; noise before a marker not trimmed',
}
STEER = {
    "codec": "Choose a mechanism that is NOT in the list above (it is long: read it carefully). Two suggestions that have "
             "hardly been used: (1) a slip that only shows for the COMBINATION of two fields of one message (one field's value "
             "changes how another is read or written: shared scratch variable, wrong running offset after a variable-length "
             "field, a sign or scale taken from the neighbouring field); (2) a slip in the text / binary WRITERS and READERS "
             "for a rarely exercised header value (Actisense 5-digit header with source >= 0x80 or priority 7; plain-text "
             "lines with a length column that disagrees with the data; Yacht Devices lines with fewer than 8 data bytes; EByte "
             "length nibble 0; USB length byte > 8). Small, plausible, and silent.",
    "state": "Choose a mechanism that is NOT in the list above (it is long: read it carefully). Two suggestions that have "
             "hardly been used: (1) something that depends on the ORDER in which two different sources or two different PGNs "
             "are first seen by a decoder; (2) something that makes the decoder's answer for a frame depend on a frame it "
             "RETURNED earlier (not only on frames it dropped): for example a returned message that is kept and later mutated, "
             "a completed message whose record influences the next message with another counter, an identity attached to the "
             "wrong one of two interleaved messages.",
    "async": "Choose a mechanism that is NOT in the list above (it is long: read it carefully). Two suggestions that have "
             "hardly been used: (1) the interplay of the network-map seeding task (build_network_map=True: ISO requests sent 2, 4 "
             "and 6 s after connecting) with faults, reconnects, send() and close(); (2) what happens when the application "
             "calls the public API in an order the examples never use: send() before connect(), connect() after close(), "
             "close() before connect(), set_*_callback after connect, two connect() calls at once, connect() from inside a "
             "callback.",
}
GROUP = {**{f"C{i:02d}": "codec" for i in (1, 2, 5, 6, 7, 8, 9, 15, 17, 18)}, **{f"C{i:02d}": "state" for i in (3, 4, 10, 11, 16)},
         **{f"C{i:02d}": "async" for i in (12, 13, 14, 19, 20)}}


def main():
    rnd = sys.argv[1]
    only = sys.argv[2:]
    props = {}
    for line in open(os.path.join(V, "properties.jsonl")):
        if line.strip():
            p = json.loads(line)
            props[p["id"]] = p
    tried = {}
    for d in sorted(glob.glob(os.path.join(V, "seeded", "*"))):
        m = json.load(open(os.path.join(d, "meta.json")))
        tried.setdefault(m["property"], []).append(m.get("change", ""))
    tmpl = open(os.path.join(V, "tools", "seed_prompt_template.txt")).read()
    for pid in sorted(props):
        if only and pid not in only:
            continue
        wt = f"/tmp/wt{rnd}_{pid}"
        if not os.path.isdir(wt):
            subprocess.run(["git", "-C", "/repo", "worktree", "add", "--detach", wt, "HEAD", "-q"], check=True)
        p = props[pid]
        text = "\n".join(f"{k}: {p[k]}" for k in ("title", "statement", "why_tests_cant") if k in p)
        s = tmpl.replace("__WT__", wt).replace("__PROP__", text).replace("__ID__", pid)
        diff = f"/tmp/change{rnd}_{pid}.diff"
        old = s[s.index("Verify both: run it with your change applied (must fail), then"):s.index("Run it as:")]
        new = (f"Verify both: run it with your change applied (must fail); then save your change with `git diff > {diff}`, revert it "
               f"with `git apply -R {diff}`, run the demo again (must pass), and re-apply the change with `git apply {diff}` so it is "
               "applied again at the end. IMPORTANT: never use `git stash` (the stash is shared between several worktrees that other "
               "people are using at the same time). ")
        s = s.replace(old, new)
        extra = ("\n\nALREADY TRIED by other engineers for this property (do NOT repeat these or close variants of them; pick a clearly "
                 "different mechanism, code path or input class): " + "; ".join(dict.fromkeys(x for x in tried.get(pid, []) if x))
                 + "; " + HAND[pid] + ".\n" + STEER[GROUP[pid]] + "\n")
        s = s.replace("\nIn your final answer report briefly:", extra + "\nIn your final answer report briefly:")
        s = s.replace("under 400 words", "under 250 words")
        open(f"/tmp/agent{rnd}_prompt_{pid}.txt", "w").write(s)
        print(pid, wt, len(s))


main()
