#!/bin/bash
# tools/runall.sh [quick|thorough] [ids...] : run checks, one line each
cd "$(dirname "$0")/.."
tier=${1:-quick}; shift
ids=${@:-$(ls mc/props/c*.py | sed 's#.*/c#C#; s#\.py##')}
for p in $ids; do
  out=$(./check $p --tier $tier 2>&1); rc=$?
  echo "$p rc=$rc $(echo "$out" | grep -c '^VIOLATION') viol $(echo "$out" | grep -c '^KNOWN-FINDING') kf :: $(echo "$out" | tail -1 | cut -c1-160)"
done
