#!/venv/bin/python
"""tools/seeded_rerun.py [name-prefix...]: apply every recorded seeded change to a scratch copy of
/repo, run the property's quick check against it, update meta.json['checks'] and print a verdict."""
import glob, json, os, shutil, subprocess, sys, tempfile
V = "/verif"
names = sys.argv[1:]
bad = 0
for d in sorted(glob.glob(os.path.join(V, "seeded", "*"))):
    name = os.path.basename(d)
    if names and not any(name.startswith(n) for n in names):
        continue
    m = json.load(open(os.path.join(d, "meta.json")))
    t = tempfile.mkdtemp(prefix="seedrr_", dir="/tmp")
    try:
        subprocess.run(["rsync", "-a", "--exclude", ".git", "--exclude", "__pycache__", "/repo/", t + "/"], check=True)
        r = subprocess.run(["patch", "-p1", "-s", "-i", os.path.join(d, "patch.diff")], cwd=t, capture_output=True, text=True)
        if r.returncode != 0:
            print(f"{name}: PATCH DOES NOT APPLY"); bad += 1; continue
        for c in list(m.get("checks", {m["property"]: {}})):
            r = subprocess.run([os.path.join(V, "check"), c, "--tier", "quick"], env=dict(os.environ, VERIF_REPO=t), capture_output=True, text=True)
            lines = (r.stdout + r.stderr).strip().splitlines()
            vio = [l for l in lines if l.startswith("VIOLATION")]
            first = next((lines[i + 1].strip() for i, l in enumerate(lines) if l.startswith("VIOLATION") and i + 1 < len(lines)), "")
            m.setdefault("checks", {})[c] = {"rc": r.returncode, "violations": len(vio), "first": first[:400], "summary": lines[-1][:300] if lines else ""}
            ok = r.returncode == 1 and vio
            if not ok and c == m["property"]:
                bad += 1
            print(f"{name}: {c} {'caught' if ok else 'NOT CAUGHT rc=%d' % r.returncode} :: {first[:150]}")
        json.dump(m, open(os.path.join(d, "meta.json"), "w"), indent=1)
    finally:
        shutil.rmtree(t, ignore_errors=True)
print("not caught:", bad)
sys.exit(1 if bad else 0)
