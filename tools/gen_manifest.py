#!/usr/bin/env python3
"""Regenerate MANIFEST.json from the per-property metadata below; a property is
claimed iff mc/props/<id>.py exists, otherwise it is listed under not_applicable."""
import json
import os

V = os.path.dirname(os.path.dirname(os.path.abspath(__file__)))

META = {
    "C01": dict(engine="payloads", tech="bounded exhaustive enumeration of payloads (<=k-field deviations from 5 base payloads + every raw of narrow fields) checked against a reference interpreter of canboat.json",
                text="Every enumerated payload of every one of the 418 definitions is decoded by the real library through its public entry point and compared field by field with an independent interpreter of the database; bounded by k deviating fields and the per-field alphabet, exhaustive inside that bound.",
                note="Trusts the reference interpreter (mc/refdb.py, written from canboat.json only) and the documented places where the database leaves the answer open (DESIGN 2.1).", ref="3/C01"),
    "C02": dict(engine="payloads", tech="bounded exhaustive enumeration of decodable payloads; decode->encode compared bitwise under the definition's field masks",
                text="All payloads of the C01 space that the decoder accepts, for every encodable definition, are re-encoded by the real encoder and compared on every defined bit; every raw value of fields up to 10 (quick) / 16 (thorough) bits.",
                note="Trusts the bit layout computed from canboat.json; wide (>48 bit) fields compared within double rounding as the property states.", ref="3/C02"),
    "C03": dict(engine="enumeration", tech="exhaustive enumeration of all 224 lengths x 8 counter states x byte patterns, plus all ordered pairs/triples of boundary lengths on one encoder/decoder pair",
                text="The whole length x counter space is enumerated through the real encoder (three frame formats) and the real decoder; frame structure checked by an independent segmentation oracle, reassembly checked frame by frame.",
                note="Arbitrary payloads are injected by stubbing the per-definition encode function on the encoder instance (narrowest seam above the segmentation code).", ref="3/C03"),
    "C04": dict(engine="xstate", tech="explicit-state BFS to a fixed point over (real decoder, environment of cyclic senders); every transition calls the real frame-level decode entry point",
                text="All histories (unbounded length) over a bounded frame alphabet: 1-3 concurrent streams, reordering/duplication/loss of non-first frames, sender moving on; oracle is a set-of-frames reference per stream; state space closes.",
                note="Frame 0 is delivered at most once and first, consecutive counters distinct (as the property states). One genuine defect is recorded in known_findings.json.", ref="3/C04"),
    "C05": dict(engine="enumeration", tech="exhaustive enumeration of CAN identifiers (2^29 thorough; 2^18 PGN field x addressing grid quick) through the real parse/build functions and the public packet paths",
                text="parse->build over every identifier and build->parse over the canonical tuples, against independent bit-field arithmetic.", note="Identifier helpers are reached through the public packet encoders/decoders on a grid and directly for the bulk (binding-checked).", ref="3/C05"),
    "C06": dict(engine="enumeration+vloop", tech="exhaustive enumeration of definitions x values x addressing x 4 formats; all 18x255 single-byte corruptions of USB packets; re-framing through the real client receive paths on a virtual event loop",
                text="Every encodable definition round-trips through each wire format; fixed framing (13/20 bytes, CR LF) and checksum detection checked on every produced packet.", note="Text formats get their receive-side timestamp token from the harness, as the property states.", ref="3/C06"),
    "C07": dict(engine="enumeration", tech="exhaustive differential enumeration: the same frame rendered in all five input formats (and their variants) must decode identically",
                text="For every known PGN x addressing grid x data patterns the five public decode entry points are compared with each other and with the reference interpreter.", note="Renderers written from the format descriptions (mc/wire.py).", ref="3/C07"),
    "C08": dict(engine="payloads", tech="exhaustive enumeration of match-field value combinations (own, siblings', none) x fillings for all multi-definition PGNs against first-match-in-database-order reference",
                text="Dispatcher selection of all 24 multi-definition PGNs checked on every <=k-field deviation of match tuples.", note="Selection observed through message.id and through recorders around the per-definition functions.", ref="3/C08"),
    "C09": dict(engine="payloads", tech="bounded exhaustive enumeration of field value assignments (k fields deviating) through the real encoder, decode-back and bit-locality oracle",
                text="Every encodable definition x every value of the per-field value alphabet, one (quick) or two (thorough) fields at a time.", note="Two genuine defects recorded in known_findings.json (call-site signatures).", ref="3/C09"),
    "C10": dict(engine="xstate", tech="explicit-state BFS over the product (filtered decoder, unfiltered decoder) for every filter configuration up to 3 entries",
                text="All filter configurations over a 12-entry alphabet x all histories over an 8-event alphabet (fixed point).", note="Reference filter is the three-line rule of the property statement.", ref="3/C10"),
    "C11": dict(engine="xstate", tech="explicit-state BFS over claim/data histories for every manufacturer-filter configuration, with a reference source->NAME map",
                text="All histories of claims (3-4 NAMEs) and data over 2 sources x ~40 configurations; identity compared with the reference decode of the NAME.", note="Clock frozen inside the discovery window.", ref="3/C11"),
    "C12": dict(engine="vloop", tech="stateless exploration of the real clients on a virtual event loop: all streams up to a length x all segmentations with <=k cuts x callback behaviours",
                text="Real asyncio stream classes over a fake transport; every chunking of every stream up to the bound; oracle is a fresh decoder fed the reference-framed packets.", note="Fake transport and virtual clock replace sockets and time.", ref="3/C12"),
    "C13": dict(engine="vloop", tech="stateless deviation-bounded exploration: all placements of <=k faults over every event-loop boundary of base sessions of the real clients",
                text="Every loop-iteration boundary x fault kind x client; status trace, connect-attempt gaps, probe delivery, outstanding reads and heartbeat checked per execution.", note="Fake gateway decides connect outcomes; livelock detector counts reads without yielding.", ref="3/C13"),
    "C14": dict(engine="vloop", tech="stateless deviation-bounded exploration: close() (and one further event) placed at every event-loop boundary of base sessions of the real clients",
                text="close() at every boundary x status callback behaviour x client; finality of CLOSED, no connect after close, tasks finished, faithful status trace.", note="As C13.", ref="3/C14"),
    "C15": dict(engine="payloads+xstate", tech="bounded exhaustive enumeration of decodable payloads through to_json/json.loads/from_json/encode; BFS over histories x dump filter configurations for the dump file",
                text="JSON round trip for every definition x k=1 payload set; dump file compared with the to_json of every returned matching message for all histories up to a depth.", note="stdlib json used as the independent JSON parser.", ref="3/C15"),
    "C16": dict(engine="xstate", tech="explicit-state BFS over histories of valid/invalid inputs with probe decodes compared with a fresh decoder in every state",
                text="All histories over a mixed alphabet on decoder X with a second decoder and an encoder alive; probes in every state; class/default-argument hashes.", note="Address claims for the probe's source are outside the alphabet (C11's subject).", ref="3/C16"),
    "C17": dict(engine="payloads", tech="exhaustive enumeration of payload pairs differing in one key / non-key field for every definition; cross-instance and cross-process comparison",
                text="hash equality iff same id and same key raws, over all definitions and all single-field and key+non-key pairs.", note="Primary-key flags taken from canboat.json.", ref="3/C17"),
    "C18": dict(engine="payloads", tech="exhaustive enumeration of all fields with a physical quantity x raw alphabet x all preference maps over the four convertible quantities",
                text="Messages decoded with and without preferences compared attribute by attribute; converted values checked against exact conversions.", note="Conversion applies to fields whose database unit is the SI unit the conversion starts from.", ref="3/C18"),
    "C19": dict(engine="vloop", tech="stateless exploration of concurrent send() tasks on the real clients with every back-pressure pattern of the fake transport and write failures at each packet",
                text="2-3 concurrent sends x all suspend/not-suspend choices per write x resume placements; gateway byte log must be a concatenation of whole messages.", note="As C13.", ref="3/C19"),
    "C20": dict(engine="vloop+xstate", tech="stateless exploration of serial streams x segmentations on the real Waveshare client plus BFS over chunk sequences for the buffering bound",
                text="All streams up to a length over packets/corrupted packets/noise x all <=k cut segmentations; pending bytes bounded in every reachable state.", note="Pending bytes measured by walking the client's object graph.", ref="3/C20"),
}


def main():
    checks, na = [], []
    for pid in sorted(META):
        m = META[pid]
        if os.path.exists(os.path.join(V, "mc", "props", pid.lower() + ".py")):
            checks.append({
                "property_id": pid,
                "quick_cmd": f"./check {pid} --tier quick",
                "thorough_cmd": f"./check {pid} --tier thorough",
                "evidence_file": f"evidence/{pid}.json",
                "replay_cmd_template": f"./check {pid} --replay {{path}}",
                "engine": m["engine"],
                "level_claimed": {"category": "model_checking", "text": m["text"], "design_ref": "DESIGN.md section " + m["ref"]},
                "level_note": m["note"],
                "technique": m["tech"],
            })
        else:
            na.append({"property_id": pid, "reason": "check not built yet (work in progress; planned in DESIGN.md section " + m["ref"] + ")"})
    man = {
        "version": 1,
        "setup_cmd": "/venv/bin/python -m compileall -q mc >/dev/null; mkdir -p .work evidence replays",
        "hooks": {
            "guard": "NMEA2000_VERIF",
            "enable": "no source hooks exist: every seam (connection factories, clock, event loop) is reached by assignment to module globals from the harness process; ./check exports NMEA2000_VERIF=1 for uniformity",
            "baseline_off_cmd": "cd /repo && /venv/bin/python -m pytest -ra -q -p no:cacheprovider --timeout=900",
            "source_commits": [],
            "add_only": True,
        },
        "engines": [
            {"name": "xstate", "path": "mc/xstate.py", "serves_properties": ["C04", "C10", "C11", "C15", "C16", "C20"], "kind_free_text": "explicit-state BFS over live Python objects, each transition calls the real library"},
            {"name": "vloop", "path": "mc/vloop.py", "serves_properties": ["C06", "C12", "C13", "C14", "C19", "C20"], "kind_free_text": "virtual asyncio event loop + fake gateway + deviation-bounded placement explorer (stateless, prefix replay)"},
            {"name": "payloads", "path": "mc/payloads.py", "serves_properties": ["C01", "C02", "C08", "C09", "C15", "C17", "C18"], "kind_free_text": "deviation-bounded payload enumerator + reference interpreter of canboat.json (mc/refdb.py)"},
            {"name": "enumeration", "path": "mc/props", "serves_properties": ["C03", "C05", "C06", "C07"], "kind_free_text": "plain exhaustive enumeration of a finite input space against independent oracles (mc/wire.py)"},
        ],
        "checks": checks,
        "not_applicable": na,
        "notes": "All checks: ./check <ID> [--tier quick|thorough] [--replay file]; exit 0 held / 1 violation / 2 harness error. Known findings in known_findings.json.",
    }
    with open(os.path.join(V, "MANIFEST.json"), "w") as f:
        json.dump(man, f, indent=1)
        f.write("\n")
    print(f"claimed={len(checks)} not_applicable={len(na)}")


if __name__ == "__main__":
    main()
