#!/venv/bin/python
"""tools/cross_matrix.py <out.json> [seed-name-prefix ...]

Soundness / robustness sweep: apply each selected seeded change to a scratch copy of /repo and run ALL twenty quick checks
against it.  Reports (a) harness errors (exit code 2: a check that crashes on a changed tree decides nothing) and (b) alarms
of checks other than the seed's own property, to be read by hand: each is either a property the change really breaks as
well, or a false alarm to be fixed."""
import glob
import json
import os
import shutil
import subprocess
import sys
import tempfile

V = os.path.dirname(os.path.dirname(os.path.abspath(__file__)))
out_path = sys.argv[1]
prefixes = sys.argv[2:]
res = {}
if os.path.exists(out_path):
    res = json.load(open(out_path))
ids = [f"C{i:02d}" for i in range(1, 21)]
for d in sorted(glob.glob(os.path.join(V, "seeded", "*"))):
    name = os.path.basename(d)
    if prefixes and not any(name.startswith(p) for p in prefixes):
        continue
    if name in res:
        continue
    own = json.load(open(os.path.join(d, "meta.json")))["property"]
    t = tempfile.mkdtemp(prefix="cross_", dir="/tmp")
    row = {}
    try:
        subprocess.run(["rsync", "-a", "--exclude", ".git", "--exclude", "__pycache__", "/repo/", t + "/"], check=True)
        subprocess.run(["patch", "-p1", "-s", "-i", os.path.join(d, "patch.diff")], cwd=t, check=True)
        for c in ids:
            r = subprocess.run([os.path.join(V, "check"), c, "--tier", "quick"], env=dict(os.environ, VERIF_REPO=t), capture_output=True, text=True)
            lines = (r.stdout + r.stderr).strip().splitlines()
            first = next((lines[i + 1].strip() for i, l in enumerate(lines) if l.startswith("VIOLATION") and i + 1 < len(lines)), "")
            row[c] = {"rc": r.returncode, "first": first[:300]}
            if r.returncode == 2:
                row[c]["tail"] = "\n".join(lines[-6:])[:600]
            tag = "own" if c == own else "other"
            if r.returncode == 2 or (r.returncode == 1 and c != own):
                print(f"{name}: {c} ({tag}) rc={r.returncode} :: {first[:200] or lines[-1][:200] if lines else ''}", flush=True)
    finally:
        shutil.rmtree(t, ignore_errors=True)
    res[name] = row
    json.dump(res, open(out_path, "w"), indent=1)
print("done", len(res))
